import WrglModel.Driver.Tables
import WrglModel.Gen.Facts
open Lean
namespace Wrgl.Drv

def jOptBytes : Option Bytes → Json
  | some b => jBytes b
  | none => Json.null

def jDiffEv (e : DiffEv) : Json :=
  Json.mkObj [("pk", jBytes e.pk), ("sum", jOptBytes e.sum), ("off", jNat e.off),
              ("oldSum", jOptBytes e.oldSum), ("oldOff", jNat e.oldOff)]

def optBytesOf (j : Json) : Except String (Option Bytes) :=
  match j with
  | Json.null => pure none
  | v => some <$> asBytes v

def diffEvOf (j : Json) : Except String DiffEv := do
  return { pk := ← asBytes (← fld j "pk"), sum := ← optBytesOf (fldD j "sum" Json.null), off := ← natFld j "off",
           oldSum := ← optBytesOf (fldD j "oldSum" Json.null), oldOff := ← natFld j "oldOff" }

def handleC04 (op : String) (input impl : Json) : Except String Json := do
  match op with
  | "diff" =>
    if resClass impl == "err" && (input.getObjVal? "t1").toOption.isNone then
      -- ingest refused the generated table: nothing to compare
      return reply (Json.mkObj [("res", "err")]) true []
    let t1 ← tableOf (← fld input "t1")
    let t2 ← tableOf (← fld input "t2")
    let bs := Facts.blockSize
    let m := diffRows Facts.diffEmptyGuard bs t1.toDTable t2.toDTable
    let mj := jRes (fun evs => Json.arr (evs.map jDiffEv).toArray) m
    let viol ←
      if resClass impl == "ok" then do
        let evs ← (← asArr (fldD impl "val" Json.null)).mapM diffEvOf
        pure (diffVerdict (t1.krows bs) (t2.krows bs) evs)
      else if resClass impl == "panic" then pure ["no-panic"]
      else pure ["unexpected-error"]
    return reply mj (sameRes impl mj) viol
  | "diff-cli" =>
    -- `wrgl diff main main^ --no-gui`: the keys written as added / removed / modified are exactly the
    -- set difference on keys and the keys whose rows differ (first column = key)
    if resClass impl == "panic" then return reply Json.null false ["no-panic"]
    if resClass impl != "ok" then return reply Json.null false ["unexpected-error"]
    let newRows ← asRows (fldD input "new" (Json.arr #[]))
    let oldRows ← asRows (fldD input "old" (Json.arr #[]))
    let keyOf1 := fun (r : Row) => (r.head?).getD []
    let sortB := fun (l : List Bytes) => l.mergeSort (fun a b => bytesCmp a b != .gt)
    let expAdded := sortB ((newRows.filter (fun r => !oldRows.any (fun o => keyOf1 o == keyOf1 r))).map keyOf1)
    let expRemoved := sortB ((oldRows.filter (fun o => !newRows.any (fun r => keyOf1 o == keyOf1 r))).map keyOf1)
    let expModified := sortB ((newRows.filter (fun r => oldRows.any (fun o => keyOf1 o == keyOf1 r && o != r))).map keyOf1)
    let v := fldD impl "val" Json.null
    let get := fun (k : String) => do
      let l ← (← asArr (fldD v k (Json.arr #[]))).mapM asBytes
      pure (sortB l)
    let iA ← get "added"
    let iR ← get "removed"
    let iM ← get "modified"
    let viol :=
      (if iA == expAdded then [] else ["added-rows-reported-exactly"]) ++
      (if iR == expRemoved then [] else ["removed-rows-reported-exactly"]) ++
      (if iM == expModified then [] else ["modified-rows-reported-exactly"])
    let mj := Json.mkObj [("added", jNat expAdded.length), ("removed", jNat expRemoved.length), ("modified", jNat expModified.length)]
    return reply mj viol.isEmpty viol
  | _ => throw s!"unknown op {op}"

end Wrgl.Drv
