import WrglModel.Driver.Tables
import WrglModel.Gen.Facts
open Lean
namespace Wrgl.Drv

def jOptBytes : Option Bytes → Json
  | some b => jBytes b
  | none => Json.null

def jDiffEv (e : DiffEv) : Json :=
  Json.mkObj [("pk", jBytes e.pk), ("sum", jOptBytes e.sum), ("off", jNat e.off),
              ("oldSum", jOptBytes e.oldSum), ("oldOff", jNat e.oldOff)]

def optBytesOf (j : Json) : Except String (Option Bytes) :=
  match j with
  | Json.null => pure none
  | v => some <$> asBytes v

def diffEvOf (j : Json) : Except String DiffEv := do
  return { pk := ← asBytes (← fld j "pk"), sum := ← optBytesOf (fldD j "sum" Json.null), off := ← natFld j "off",
           oldSum := ← optBytesOf (fldD j "oldSum" Json.null), oldOff := ← natFld j "oldOff" }

def handleC04 (op : String) (input impl : Json) : Except String Json := do
  match op with
  | "diff" =>
    if resClass impl == "err" && (input.getObjVal? "t1").toOption.isNone then
      -- ingest refused the generated table: nothing to compare
      return reply (Json.mkObj [("res", "err")]) true []
    let t1 ← tableOf (← fld input "t1")
    let t2 ← tableOf (← fld input "t2")
    let bs := Facts.blockSize
    let m := diffRows Facts.diffEmptyGuard bs t1.toDTable t2.toDTable
    let mj := jRes (fun evs => Json.arr (evs.map jDiffEv).toArray) m
    let viol ←
      if resClass impl == "ok" then do
        let evs ← (← asArr (fldD impl "val" Json.null)).mapM diffEvOf
        pure (diffVerdict (t1.krows bs) (t2.krows bs) evs)
      else if resClass impl == "panic" then pure ["no-panic"]
      else pure ["unexpected-error"]
    return reply mj (sameRes impl mj) viol
  | _ => throw s!"unknown op {op}"

end Wrgl.Drv
