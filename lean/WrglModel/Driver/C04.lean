import WrglModel.Driver.Tables
import WrglModel.Gen.Facts
open Lean
namespace Wrgl.Drv

def jOptBytes : Option Bytes → Json
  | some b => jBytes b
  | none => Json.null

def jDiffEv (e : DiffEv) : Json :=
  Json.mkObj [("pk", jBytes e.pk), ("sum", jOptBytes e.sum), ("off", jNat e.off),
              ("oldSum", jOptBytes e.oldSum), ("oldOff", jNat e.oldOff)]

def optBytesOf (j : Json) : Except String (Option Bytes) :=
  match j with
  | Json.null => pure none
  | v => some <$> asBytes v

def diffEvOf (j : Json) : Except String DiffEv := do
  return { pk := ← asBytes (← fld j "pk"), sum := ← optBytesOf (fldD j "sum" Json.null), off := ← natFld j "off",
           oldSum := ← optBytesOf (fldD j "oldSum" Json.null), oldOff := ← natFld j "oldOff" }

/-- What may be said of the events a differ produced BEFORE it reported an error: nothing wrong -
    every event is one of the specification's (an added key is only in the first table, a removed key
    only in the second, a modified key in both with different rows), no key twice, offsets right. -/
def diffPartialVerdict (r1 r2 : List KRow) (evs : List DiffEv) : List String :=
  let added := evs.filter (fun e => e.sum.isSome && e.oldSum.isNone)
  let removed := evs.filter (fun e => e.sum.isNone && e.oldSum.isSome)
  let modified := evs.filter (fun e => e.sum.isSome && e.oldSum.isSome)
  let junk := evs.filter (fun e => e.sum.isNone && e.oldSum.isNone)
  let sub := fun (a b : List Bytes) => a.all b.contains
  let at1 := fun (off : Nat) => r1.find? (fun r => r.off == off)
  let at2 := fun (off : Nat) => r2.find? (fun r => r.off == off)
  (if sub (added.map (·.pk)) ((onlyIn r1 r2).map (·.pkSum)) then [] else ["added-exact"]) ++
  (if sub (removed.map (·.pk)) ((onlyIn r2 r1).map (·.pkSum)) then [] else ["removed-exact"]) ++
  (if sub (modified.map (·.pk)) ((changedIn r1 r2).map (·.pkSum)) then [] else ["modified-exact"]) ++
  (if junk.isEmpty then [] else ["nothing-else"]) ++
  (if nodupB (evs.map (·.pk)) then [] else ["no-key-twice"]) ++
  (if (added ++ modified).all (fun e => match at1 e.off with
        | some r => r.pkSum == e.pk && some r.rowSum == e.sum
        | none => false) then [] else ["offset-addresses-row"]) ++
  (if (removed ++ modified).all (fun e => match at2 e.oldOff with
        | some r => r.pkSum == e.pk && some r.rowSum == e.oldSum
        | none => false) then [] else ["old-offset-addresses-row"])

def addNew (acc new : List String) : List String := acc ++ new.filter (fun c => !acc.contains c)

def handleC04 (op : String) (input impl : Json) : Except String Json := do
  match op with
  | "diff" =>
    if resClass impl == "err" && (input.getObjVal? "t1").toOption.isNone then
      -- ingest refused the generated table: nothing to compare
      return reply (Json.mkObj [("res", "err")]) true []
    let t1 ← tableOf (← fld input "t1")
    let t2 ← tableOf (← fld input "t2")
    let bs := Facts.blockSize
    let m := diffRows Facts.diffEmptyGuard bs t1.toDTable t2.toDTable
    let mj := jRes (fun evs => Json.arr (evs.map jDiffEv).toArray) m
    let viol ←
      if resClass impl == "ok" then do
        let evs ← (← asArr (fldD impl "val" Json.null)).mapM diffEvOf
        pure (diffVerdict (t1.krows bs) (t2.krows bs) evs)
      else if resClass impl == "panic" then pure ["no-panic"]
      else pure ["unexpected-error"]
    return reply mj (sameRes impl mj) viol
  | "diff-fault" =>
    -- the same diff on a store that fails some of its reads. A caller drains the diff channel and then
    -- looks at the error channel: no error means the events ARE the diff, so every run either reports
    -- an error or satisfies every clause of the property (`error-or-complete`); and what was emitted
    -- before a reported error must be right as far as it goes. The run without a fault is judged as any
    -- diff. Model: the fault-free event list; a run that reported an error must have emitted a prefix of
    -- it, a run that did not, all of it.
    if resClass impl == "err" && (input.getObjVal? "t1").toOption.isNone then
      return reply (Json.mkObj [("res", "err")]) true []
    let t1 ← tableOf (← fld input "t1")
    let t2 ← tableOf (← fld input "t2")
    let bs := Facts.blockSize
    let m := diffRows Facts.diffEmptyGuard bs t1.toDTable t2.toDTable
    let mj := jRes (fun evs => Json.arr (evs.map jDiffEv).toArray) m
    if resClass impl == "panic" then return reply mj false ["no-panic"]
    if resClass impl != "ok" then return reply mj false ["unexpected-error"]
    let v := fldD impl "val" Json.null
    let r1 := t1.krows bs
    let r2 := t2.krows bs
    let cleanEvs ← (← arrFld v "clean").mapM diffEvOf
    let mevs := match m with
      | .ok e => some e
      | _ => none
    let mut viol := diffVerdict r1 r2 cleanEvs
    let mut agree := mevs == some cleanEvs
    for run in ← arrFld v "runs" do
      let evs ← (← arrFld run "events").mapM diffEvOf
      let reported ← boolFld run "error"
      if reported then
        viol := addNew viol (diffPartialVerdict r1 r2 evs)
        agree := agree && (match mevs with
          | some e => evs.isPrefixOf e
          | none => false)
      else
        let dv := diffVerdict r1 r2 evs
        if !dv.isEmpty then viol := addNew viol ("error-or-complete" :: dv)
        agree := agree && mevs == some evs
    return reply mj agree viol
  | "diff-cli" =>
    -- `wrgl diff main main^ --no-gui`: the keys written as added / removed / modified are exactly the
    -- set difference on keys and the keys whose rows differ (first column = key)
    if resClass impl == "panic" then return reply Json.null false ["no-panic"]
    if resClass impl != "ok" then return reply Json.null false ["unexpected-error"]
    let newRows ← asRows (fldD input "new" (Json.arr #[]))
    let oldRows ← asRows (fldD input "old" (Json.arr #[]))
    let keyOf1 := fun (r : Row) => (r.head?).getD []
    let sortB := fun (l : List Bytes) => l.mergeSort (fun a b => bytesCmp a b != .gt)
    let expAdded := sortB ((newRows.filter (fun r => !oldRows.any (fun o => keyOf1 o == keyOf1 r))).map keyOf1)
    let expRemoved := sortB ((oldRows.filter (fun o => !newRows.any (fun r => keyOf1 o == keyOf1 r))).map keyOf1)
    let expModified := sortB ((newRows.filter (fun r => oldRows.any (fun o => keyOf1 o == keyOf1 r && o != r))).map keyOf1)
    let v := fldD impl "val" Json.null
    let get := fun (k : String) => do
      let l ← (← asArr (fldD v k (Json.arr #[]))).mapM asBytes
      pure (sortB l)
    let iA ← get "added"
    let iR ← get "removed"
    let iM ← get "modified"
    let viol :=
      (if iA == expAdded then [] else ["added-rows-reported-exactly"]) ++
      (if iR == expRemoved then [] else ["removed-rows-reported-exactly"]) ++
      (if iM == expModified then [] else ["modified-rows-reported-exactly"])
    let mj := Json.mkObj [("added", jNat expAdded.length), ("removed", jNat expRemoved.length), ("modified", jNat expModified.length)]
    return reply mj viol.isEmpty viol
  | _ => throw s!"unknown op {op}"

end Wrgl.Drv
