/-
JSON helpers for the model driver. Core Lean only.
-/
import Lean.Data.Json
import WrglModel.Model.Basic
open Lean
namespace Wrgl.Drv

def fld (j : Json) (k : String) : Except String Json := j.getObjVal? k
def fldD (j : Json) (k : String) (d : Json) : Json := (j.getObjVal? k).toOption.getD d

def asNat (j : Json) : Except String Nat := j.getNat?
def asInt (j : Json) : Except String Int := j.getInt?
def asStr (j : Json) : Except String String := j.getStr?
def asBool (j : Json) : Except String Bool := j.getBool?
def asArr (j : Json) : Except String (List Json) := do return (← j.getArr?).toList
def asNatList (j : Json) : Except String (List Nat) := do (← asArr j).mapM asNat
def asIntList (j : Json) : Except String (List Int) := do (← asArr j).mapM asInt

def natFld (j : Json) (k : String) : Except String Nat := do asNat (← fld j k)
def intFld (j : Json) (k : String) : Except String Int := do asInt (← fld j k)
def strFld (j : Json) (k : String) : Except String String := do asStr (← fld j k)
def boolFld (j : Json) (k : String) : Except String Bool := do asBool (← fld j k)
def arrFld (j : Json) (k : String) : Except String (List Json) := do asArr (← fld j k)

def hexVal (c : Char) : Option Nat :=
  if '0' ≤ c ∧ c ≤ '9' then some (c.toNat - '0'.toNat)
  else if 'a' ≤ c ∧ c ≤ 'f' then some (c.toNat - 'a'.toNat + 10)
  else if 'A' ≤ c ∧ c ≤ 'F' then some (c.toNat - 'A'.toNat + 10)
  else none

def hexToBytes (s : String) : Except String Bytes :=
  let rec go : List Char → List UInt8 → Except String Bytes
    | [], acc => .ok acc.reverse
    | [_], _ => .error "odd hex"
    | a :: b :: rest, acc =>
      match hexVal a, hexVal b with
      | some x, some y => go rest (UInt8.ofNat (x * 16 + y) :: acc)
      | _, _ => .error "bad hex"
  go s.toList []

def hexDigit (n : Nat) : Char :=
  if n < 10 then Char.ofNat (n + '0'.toNat) else Char.ofNat (n - 10 + 'a'.toNat)

def bytesToHex (b : Bytes) : String :=
  String.ofList (b.flatMap (fun x => [hexDigit (x.toNat / 16), hexDigit (x.toNat % 16)]))

def asBytes (j : Json) : Except String Bytes := do hexToBytes (← asStr j)
def asRow (j : Json) : Except String Row := do (← asArr j).mapM asBytes
def asRows (j : Json) : Except String (List Row) := do (← asArr j).mapM asRow

def jBytes (b : Bytes) : Json := Json.str (bytesToHex b)
def jRow (r : Row) : Json := Json.arr (r.map jBytes).toArray
def jRows (rs : List Row) : Json := Json.arr (rs.map jRow).toArray
def jNats (l : List Nat) : Json := Json.arr (l.map (fun n => Json.num (JsonNumber.fromNat n))).toArray
def jInts (l : List Int) : Json := Json.arr (l.map (fun n => Json.num (JsonNumber.fromInt n))).toArray
def jNat (n : Nat) : Json := Json.num (JsonNumber.fromNat n)
def jInt (n : Int) : Json := Json.num (JsonNumber.fromInt n)
def jStrs (l : List String) : Json := Json.arr (l.map Json.str).toArray

def jRes {α : Type} (f : α → Json) : Res α → Json
  | .ok a => Json.mkObj [("res", "ok"), ("val", f a)]
  | .err e => Json.mkObj [("res", "err"), ("kind", Json.str e)]
  | .panic s => Json.mkObj [("res", "panic"), ("site", Json.str s)]

/-- compare implementation result with model result. Error kinds and panic sites are compared by
    class only (`res` field) unless both sides carry the same key. -/
def resClass (j : Json) : String := (j.getObjValAs? String "res").toOption.getD "?"

def sameRes (impl model : Json) : Bool :=
  let ci := resClass impl
  let cm := resClass model
  if ci != cm then false
  else if ci == "ok" then (fldD impl "val" Json.null).compress == (fldD model "val" Json.null).compress
  else true

def graphOf (j : Json) : Except String Graph := do
  (← asArr j).mapM fun c => do
    let a ← asArr c
    match a with
    | [i, t, ps] => return { id := ← asNat i, time := ← asInt t, parents := ← asNatList ps }
    | [i, t, ps, tb] => return { id := ← asNat i, time := ← asInt t, parents := ← asNatList ps, table := ← asNat tb }
    | _ => throw "bad commit"

/-- standard reply -/
def reply (model : Json) (agree : Bool) (violations : List String) (extra : List (String × Json) := []) : Json :=
  Json.mkObj ([("model", model), ("agree", Json.bool agree), ("violations", jStrs violations)] ++ extra)

end Wrgl.Drv
