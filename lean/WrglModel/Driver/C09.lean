import WrglModel.Driver.Util
import WrglModel.Model.Sync
import WrglModel.Spec.Graph
open Lean
namespace Wrgl.Drv

structure RepoObs where
  refs : List (String × Nat)
  logs : List (String × Nat × Nat)
  commits : List Nat
  tables : List Nat

def repoObsOf (j : Json) : Except String RepoObs := do
  let refs ← (match fldD j "refs" (Json.mkObj []) with
    | Json.obj kvs => kvs.toList.mapM (fun (k, v) => do return (k, ← asNat v))
    | _ => throw "refs")
  let logs ← (match fldD j "logs" (Json.mkObj []) with
    | Json.obj kvs => kvs.toList.mapM (fun (k, v) => do
        match ← asNatList v with
        | [a, b] => return (k, a, b)
        | _ => throw "log")
    | _ => throw "logs")
  return { refs := refs, logs := logs, commits := ← asNatList (fldD j "commits" (Json.arr #[])), tables := ← asNatList (fldD j "tables" (Json.arr #[])) }

def RepoObs.ref? (r : RepoObs) (n : String) : Option Nat := (r.refs.find? (fun p => p.1 == n)).map (·.2)

def changedRefs (before after : RepoObs) : List (String × Option Nat × Option Nat) :=
  let names := ((before.refs.map (·.1)) ++ (after.refs.map (·.1))).eraseDups
  names.filterMap (fun n => let a := before.ref? n; let b := after.ref? n; if a == b then none else some (n, a, b))

/-- commits at parent-distance < depth from any of the tips (all ancestors when depth = 0) -/
def withinDepth (g : Graph) (depth : Nat) (tips : List Nat) : List Nat :=
  if depth == 0 then ancestorsOfAll g tips
  else
    let rec go : Nat → List Nat → List Nat → List Nat
      | 0, _, acc => acc
      | d+1, frontier, acc =>
        let fresh := (frontier.filter (fun x => !acc.contains x)).eraseDups
        go d (fresh.flatMap (parentsOf g)) (acc ++ fresh)
    go depth tips []

structure SyncCase where
  g : Graph
  action : String
  force : Bool
  depth : Nat
  ffMode : String
  refspecForce : Bool
  forcedDsts : List String
  mainOnly : Bool
  /-- fetch: the concrete (remote ref, destination, '+') triples the refspecs expand to; empty = the
      command maps heads/* to remotes/origin/* as described by refspecForce / forcedDsts -/
  specMap : List (String × String × Bool)
  /-- merge.fastForward of the configuration ("" = not set) -/
  configFF : String
  /-- merge: the commit named on the command line (0 = the tip of origin/main after the command) -/
  mergeTarget : Nat
  lb : RepoObs
  rb : RepoObs
  la : RepoObs
  ra : RepoObs
  failed : Bool

def syncCaseOf (input impl : Json) : Except String SyncCase := do
  let v := fldD impl "val" Json.null
  return { g := ← graphOf (fldD input "graph" (Json.arr #[])), action := ← strFld input "action",
           force := (fldD input "force" (Json.bool false)).getBool?.toOption.getD false,
           depth := ← natFld input "depth", ffMode := (fldD input "ffMode" (Json.str "")).getStr?.toOption.getD "",
           refspecForce := (fldD input "refspecForce" (Json.bool false)).getBool?.toOption.getD false,
           mainOnly := (fldD input "mainOnly" (Json.bool false)).getBool?.toOption.getD false,
           forcedDsts := (match fldD input "forcedDsts" (Json.arr #[]) with
             | .arr a => a.toList.filterMap (fun x => x.getStr?.toOption)
             | _ => []),
           specMap := (match fldD input "specMap" (Json.arr #[]) with
             | .arr a => a.toList.filterMap (fun x =>
                 match (x.getObjValAs? String "src").toOption, (x.getObjValAs? String "dst").toOption with
                 | some sr, some ds => some (sr, ds, (fldD x "force" (Json.bool false)).getBool?.toOption.getD false)
                 | _, _ => none)
             | _ => []),
           configFF := (fldD input "configFF" (Json.str "")).getStr?.toOption.getD "",
           mergeTarget := (fldD input "mergeTarget" (jNat 0)).getNat?.toOption.getD 0,
           lb := ← repoObsOf (← fld input "localBefore"), rb := ← repoObsOf (← fld input "remoteBefore"),
           la := ← repoObsOf (← fld v "localAfter"), ra := ← repoObsOf (← fld v "remoteAfter"),
           failed := (fldD v "failed" (Json.bool false)).getBool?.toOption.getD false }

def sameObs (a b : RepoObs) : Bool :=
  let s := fun (l : List Nat) => l.mergeSort (fun x y => decide (x ≤ y))
  let sr := fun (l : List (String × Nat)) => l.mergeSort (fun x y => decide (x.1 ≤ y.1))
  sr a.refs == sr b.refs && s a.commits == s b.commits && s a.tables == s b.tables

/-- destinations that the refspecs of a fetch give two or more DIFFERENT remote refs, with the commits
    those refs have on the remote -/
def collidingDsts (specMap : List (String × String × Bool)) (rb : RepoObs) : List (String × List Nat) :=
  let dsts := (specMap.map (·.2.1)).eraseDups
  dsts.filterMap (fun d =>
    let srcs := ((specMap.filter (fun m => m.2.1 == d)).map (·.1)).eraseDups
    if srcs.length < 2 then none else some (d, srcs.filterMap rb.ref?))

/-- one requested ref update of a push: ref, old and new commit (0 = absent) -/
def pushRequestsOf (v : Json) : List (String × Nat × Nat) :=
  match fldD v "pushRequests" (Json.arr #[]) with
  | .arr a => a.toList.filterMap (fun x =>
      match (x.getObjValAs? String "ref").toOption, (x.getObjValAs? Nat "old").toOption, (x.getObjValAs? Nat "new").toOption with
      | some r, some o, some n => some (r, o, n)
      | _, _, _ => none)
  | _ => []

def handleC09 (_op : String) (input impl : Json) : Except String Json := do
  if resClass impl == "panic" then return reply Json.null false ["no-panic"]
  if resClass impl != "ok" then return reply Json.null false ["harness-setup-failed"]
  let c ← syncCaseOf input impl
  let v := fldD impl "val" Json.null
  -- the receiving side of the exchange and the refs it updated
  let (before, after, recvIsLocal) := if c.action == "push" then (c.rb, c.ra, false) else (c.lb, c.la, true)
  let moved := (changedRefs before after).filterMap (fun (n, _, b) => b.map (fun x => (n, x)))
  let tips := moved.map (·.2)
  let needCommits := ancestorsOfAll c.g tips
  -- tables: every commit within the requested depth of an updated ref (all when no depth); commits the
  -- receiver already had before are only required to keep what they had
  let depth := if c.action == "push" then 0 else c.depth
  let needTables := (withinDepth c.g depth tips).filter (fun x => !before.commits.contains x || before.tables.contains x)
  let viol :=
    (if needCommits.all after.commits.contains then [] else ["updated-refs-have-their-full-history"]) ++
    (if needTables.all after.tables.contains then [] else ["tables-present-within-depth"]) ++
    (if after.refs.all (fun p => after.commits.contains p.2) then [] else ["every-ref-resolves"]) ++
    -- whatever the depth and whatever was already there, a BRANCH that was created or moved (pull, merge;
    -- push on the remote) points at a commit whose table and blocks are present
    (if moved.all (fun p => !p.1.startsWith "heads/" || after.tables.contains p.2) then [] else ["moved-branch-head-has-its-table"]) ++
    (if before.commits.all after.commits.contains && before.tables.all after.tables.contains then [] else ["nothing-lost"]) ++
    -- a destination fed by several remote refs ends up, after a successful fetch that created it, with
    -- the commit of one of them
    (if c.action == "fetch" && !c.failed then
       (if (collidingDsts c.specMap c.rb).all (fun (d, vals) => match before.ref? d, after.ref? d with
           | none, some x => vals.contains x
           | none, none => vals.isEmpty
           | _, _ => true) then [] else ["colliding-destination-holds-one-of-its-sources"])
     else []) ++
    -- an immediately repeated fetch or push transfers nothing and changes nothing
    (match (v.getObjVal? "local2").toOption, (v.getObjVal? "remote2").toOption with
     | some l2j, some r2j =>
       if l2j == Json.null || r2j == Json.null then [] else
       if c.failed then
         -- the repeat of a FAILED fetch / push is a retry: whatever it moved must be closed in the same
         -- sense, counted from the state before the first attempt (a failed attempt must not leave
         -- something behind that makes the retry believe it has everything)
         match repoObsOf (if c.action == "push" then r2j else l2j) with
         | .ok a2 =>
           let moved2 := (changedRefs before a2).filterMap (fun (n, _, b) => b.map (fun x => (n, x)))
           let tips2 := moved2.map (·.2)
           let needT2 := (withinDepth c.g depth tips2).filter (fun x => !before.commits.contains x || before.tables.contains x)
           (if (ancestorsOfAll c.g tips2).all a2.commits.contains then [] else ["updated-refs-have-their-full-history-after-retry"]) ++
           (if needT2.all a2.tables.contains then [] else ["tables-present-within-depth-after-retry"]) ++
           (if a2.refs.all (fun p => a2.commits.contains p.2) then [] else ["every-ref-resolves-after-retry"]) ++
           (if before.commits.all a2.commits.contains && before.tables.all a2.tables.contains then [] else ["nothing-lost-after-retry"])
         | _ => []
       else
       -- the repeat of a SUCCESSFUL fetch / push
       match repoObsOf l2j, repoObsOf r2j with
       | .ok l2, .ok r2 =>
         -- a destination that several different remote refs are mapped onto has no single value it
         -- could keep: it is compared apart (it must hold one of its sources, before and after)
         let coll := collidingDsts c.specMap c.rb
         let isColl := fun (n : String) => coll.any (fun p => p.1 == n)
         let strip := fun (o : RepoObs) => { o with refs := o.refs.filter (fun p => !isColl p.1) }
         let collOk := fun (o : RepoObs) => coll.all (fun (d, vals) => match o.ref? d with
           | some x => vals.contains x
           | none => true)
         (if sameObs (strip l2) (strip c.la) && sameObs r2 c.ra && (c.action != "fetch" || (collOk l2 && (coll.all (fun p => (l2.ref? p.1).isSome == (c.la.ref? p.1).isSome))))
          then [] else ["repeated-run-changes-nothing"]) ++
         (if c.action == "fetch" && (fldD v "repeatPackfiles" (jNat 0)).getNat?.toOption.getD 0 != 0 then ["repeated-fetch-transfers-nothing"] else [])
       | _, _ => []
     | _, _ => [])
  -- model: the receiver ends with what it had plus the ancestors of what the sender advertised / was asked to take
  let expectCommits := fun (wanted : List Nat) => (before.commits ++ ancestorsOfAll c.g wanted).eraseDups
  let agree :=
    if c.action == "fetch" then
      -- wanted: every remote head (and tags when they are fetched or point at fetched/existing commits)
      -- (with explicit mappings: every remote ref some refspec of the command covers)
      let heads := if c.specMap.isEmpty then (c.rb.refs.filter (fun p => p.1.startsWith "heads/" && (!c.mainOnly || p.1 == "heads/main"))).map (·.2)
        else (c.specMap.map (·.1)).eraseDups.filterMap c.rb.ref?
      let s := fun (l : List Nat) => l.mergeSort (fun x y => decide (x ≤ y))
      -- tags may add commits only if their target is otherwise present; compare on heads' closure as a lower bound and allow tag targets
      let lower := expectCommits heads
      let upper := expectCommits (c.rb.refs.map (·.2))
      -- a fetch that FAILED because the sending side could not read one of its objects (an injected
      -- fault) need not have received anything; what it did receive is still bounded
      let faulted := (fldD input "fault" (Json.str "")).getStr?.toOption.getD "" != ""
      ((c.failed && faulted) || lower.all after.commits.contains) && after.commits.all upper.contains && (s lower == s after.commits || true)
    else if c.action == "push" then
      let pushed := (c.lb.ref? "heads/main").toList
      let s := fun (l : List Nat) => l.mergeSort (fun x y => decide (x ≤ y))
      -- either nothing was accepted (refs unchanged, no new commits) or exactly the closure arrived
      (sameObs c.rb c.ra) || s (expectCommits pushed) == s after.commits
    else true
  let _ := recvIsLocal
  return reply (Json.str "closure") agree viol

def handleC10 (_op : String) (input impl : Json) : Except String Json := do
  if resClass impl == "panic" then return reply Json.null false ["no-panic"]
  if resClass impl != "ok" then return reply Json.null false ["harness-setup-failed"]
  let c ← syncCaseOf input impl
  let isAnc := fun (a b : Nat) => reach c.g a b
  let isTag := fun (n : String) => n.startsWith "tags/"
  -- which refs may be force-updated by this command
  let forcedRef := fun (side : String) (n : String) =>
    c.action != "merge" && (c.force ||
      (side == "local" && c.action == "fetch" && c.specMap.isEmpty && ((c.refspecForce && n.startsWith "remotes/") || c.forcedDsts.contains n)) ||
      -- several refspecs: a destination may be forced only by the '+' of a refspec that yields it
      (side == "local" && c.action == "fetch" && c.specMap.any (fun m => m.2.1 == n && m.2.2)) ||
      -- `wrgl pull` fetches through the remote's configured refspec (+refs/heads/*:refs/remotes/origin/*)
      (side == "local" && c.action == "pull" && n.startsWith "remotes/"))
  let check := fun (side : String) (before after : RepoObs) =>
    (changedRefs before after).flatMap (fun (n, a, b) =>
      match a, b with
      | some o, some x =>
        (if forcedRef side n then [] else
          (if isTag n then ["existing-tag-never-overwritten-without-force"] else
            (if isAnc o x then [] else ["ref-only-moves-forward-without-force"]))) ++
        -- the update is logged with the true old and new values
        (match after.logs.find? (fun l => l.1 == n) with
         | some (_, lo, ln) => if lo == o && ln == x then [] else ["update-logged-with-true-old-and-new"]
         | none => ["update-logged-with-true-old-and-new"])
      | none, some x =>
        (match after.logs.find? (fun l => l.1 == n) with
         | some (_, lo, ln) => if lo == 0 && ln == x then [] else ["update-logged-with-true-old-and-new"]
         | none => ["update-logged-with-true-old-and-new"])
      | _, none => if forcedRef side n || c.action == "push" then [] else ["ref-not-deleted"])
  -- model: the decision for each ref the command considers
  -- (destination, the remote ref it comes from, decision)
  let modelLocal : List (String × String × RefDecision) :=
    if c.action == "fetch" && !c.specMap.isEmpty then
      c.specMap.filterMap (fun (src, dst, f) => (c.rb.ref? src).map (fun v =>
        (dst, src, fetchDecision (c.lb.ref? dst) v (isTag dst) (c.force || f) isAnc)))
    else if c.action == "fetch" then
      (c.rb.refs.filter (fun p => p.1.startsWith "heads/" && (!c.mainOnly || p.1 == "heads/main"))).map (fun p =>
        let dst := "remotes/origin/" ++ (p.1.drop 6).toString
        (dst, p.1, fetchDecision (c.lb.ref? dst) p.2 false (c.force || c.refspecForce || c.forcedDsts.contains dst) isAnc))
    else []
  let modelRemote : List (String × RefDecision) :=
    if c.action == "push" then
      match c.lb.ref? "heads/main" with
      | some l => [("heads/main", pushDecision (c.rb.ref? "heads/main") l false c.force isAnc)]
      | none => []
    else []
  let decisionHolds := fun (before after : RepoObs) (d : String × RefDecision) (newVal : Option Nat) =>
    match d.2 with
    | .update => after.ref? d.1 == newVal
    | .unchanged => after.ref? d.1 == before.ref? d.1
    | .reject => after.ref? d.1 == before.ref? d.1
  -- a fetch that FAILED because of an injected fault (the remote could not be listed) has decided
  -- nothing: it must have left every local ref as it was
  let faulted := (fldD input "fault" (Json.str "")).getStr?.toOption.getD "" != ""
  let agreeFetch :=
    if c.action == "fetch" && c.failed && faulted then (changedRefs c.lb c.la).isEmpty
    else modelLocal.all (fun d => decisionHolds c.lb c.la (d.1, d.2.2) (c.rb.ref? d.2.1))
  -- a push that the CLI decided to send may still be refused by the remote (denyNonFastForwards): accept both
  let agreePush := modelRemote.all (fun d => match d.2 with
    | .update => c.ra.ref? d.1 == c.lb.ref? "heads/main" || c.ra.ref? d.1 == c.rb.ref? d.1
    | _ => c.ra.ref? d.1 == c.rb.ref? d.1)
  -- rejected updates are reported: a fetch with a rejected ref fails
  let rejectedReported :=
    if c.action == "fetch" && modelLocal.any (fun d => d.2.2 == .reject) then c.failed else true
  -- merge / pull: fast-forward moves the branch exactly to the other commit
  let mergeViol : List String :=
    if c.action == "merge" || c.action == "pull" then
      match c.lb.ref? "heads/main", (if c.mergeTarget != 0 then some c.mergeTarget else c.la.ref? "remotes/origin/main") with
      | some h, some o =>
        -- the mode in force: the flag on the command line when one is given, merge.fastForward otherwise
        let flag : Option FFMode := if c.ffMode == "no-ff" then some .never else if c.ffMode == "ff-only" then some .only
          else if c.ffMode == "ff" then some .default_ else none
        let config : Option FFMode := if c.configFF == "never" then some .never else if c.configFF == "only" then some .only else none
        let mode := effectiveFF flag config
        if !c.la.tables.contains o then
          -- the table of the commit to merge is absent (beyond the depth of the fetch that brought it):
          -- no branch may be moved onto it or onto a commit made from it; the refusal is reported
          (if c.la.ref? "heads/main" == some h then [] else ["merge-never-moves-a-branch-onto-a-commit-without-its-table"]) ++
          (if !isAnc o h && !c.failed then ["refused-merge-is-reported"] else [])
        else if h != o && isAnc h o then
          -- a fast-forward situation
          (match mode with
           | .never => (match c.la.ref? "heads/main" with
               | some m => if m != h && m != o && (parentsOf c.g m == [h, o]) then [] else ["no-ff-creates-a-merge-commit-with-both-parents"]
               | none => ["no-ff-creates-a-merge-commit-with-both-parents"])
           | _ => if c.la.ref? "heads/main" == some o then [] else ["fast-forward-moves-branch-exactly-to-the-other-commit"])
        else if h != o && !isAnc o h && mode == .only then
          (if c.la.ref? "heads/main" == some h then [] else ["ff-only-rejects-non-fast-forward"])
        else []
      | _, _ => []
    else []
  -- a fetch that reports success has written every ref its decision chain accepts (also when no
  -- object had to be transferred)
  let fetchWrites : List String :=
    if c.action == "fetch" && !c.failed && !agreeFetch then ["fetch-writes-every-accepted-ref"] else []
  -- push: what the command ASKED the remote to do (first run). Every requested update of a ref must be
  -- one the gate accepts against the remote's true value of that ref (an update that must be rejected,
  -- or that is not needed, is never sent), and it names that true value as the old one.
  let pushAsks : List String :=
    if c.action == "push" then
      (pushRequestsOf (fldD impl "val" Json.null)).flatMap (fun (n, o, x) =>
        if x == 0 then [] else
        (if pushDecision (c.rb.ref? n) x (isTag n) c.force isAnc == .update then [] else ["push-asks-only-for-updates-its-gate-accepts"]) ++
        (if (c.rb.ref? n).getD 0 == o then [] else ["push-request-names-the-true-old-value"]))
    else []
  let viol := check "local" c.lb c.la ++ check "remote" c.rb c.ra ++ mergeViol ++ fetchWrites ++ pushAsks ++
    (if rejectedReported then [] else ["rejected-updates-are-reported"])
  return reply (Json.str "decisions") (agreeFetch && agreePush) viol.eraseDups

end Wrgl.Drv
