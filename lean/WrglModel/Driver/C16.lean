import WrglModel.Driver.Util
import WrglModel.Model.Pool
import WrglModel.Model.PBar
import WrglModel.Model.Pipe
import WrglModel.Gen.Facts
open Lean
namespace Wrgl.Drv

def handleC16 (op : String) (input impl : Json) : Except String Json := do
  match op with
  | "ingest" =>
    let blockRows ← asNatList (fldD input "blockRows" (Json.arr #[]))
    let eff ← natFld input "effectiveWorkers"
    let schedule ← asNatList (fldD input "schedule" (Json.arr #[]))
    let failAt ← intFld input "failAt"
    let blocks : List PBlk := (blockRows.zipIdx).map (fun (r, i) => { off := i, rows := r })
    -- the model under the schedule shipped with the case, with the extracted guard fact
    let p := (Pool.init blocks eff).run Facts.ingestSharedAccessGuarded schedule
    let (mrows, mblocks) := p.result
    let mj := Json.mkObj [("finished", Json.bool p.finished), ("rowsCount", jNat mrows), ("blocks", jNat mblocks.length)]
    if resClass impl == "panic" then return reply mj false ["no-panic"]
    if resClass impl != "ok" then
      let isHang := (fldD impl "kind" Json.null).getStr?.toOption == some "hang"
      return reply mj false [if isHang then "always-terminates" else "unexpected-error"]
    let v := fldD impl "val" Json.null
    let isErr := (fldD v "error" (Json.bool false)).getBool?.toOption.getD false
    if failAt ≥ 0 then
      -- an injected store error in one worker must surface as an error (or, if it hit after the last
      -- write, as success); never a hang (watchdog) and never an unreadable table
      let unreadable := (v.getObjVal? "unreadable").toOption.isSome
      return reply mj true (if unreadable then ["error-in-one-worker-is-reported"] else [])
    if isErr then return reply mj false ["unexpected-error"]
    let rows := (fldD v "rowsCount" (jNat 0)).getNat?.toOption.getD 0
    let nb := (fldD v "blocks" (jNat 0)).getNat?.toOption.getD 0
    let same := (fldD v "sameSum" (Json.bool false)).getBool?.toOption.getD false
    let total := (blockRows.foldl (· + ·) 0)
    let viol :=
      (if same then [] else ["same-table-as-single-threaded-run"]) ++
      (if rows == total then [] else ["no-row-lost-or-duplicated"]) ++
      (if nb == blockRows.length then [] else ["no-block-lost-or-duplicated"])
    let agree := p.finished && mrows == rows && mblocks.length == nb
    return reply mj agree viol
  | "ingest-history" =>
    -- several ingests in a row on one sorter: each attempt is judged on its own - error exactly when
    -- one of its writes was refused, otherwise the table of a single-threaded ingest of its rows -
    -- whatever happened in the attempts before it, and each attempt is over when it returns
    let eff ← natFld input "effectiveWorkers"
    let cap ← natFld input "chanBuffer"
    let atts ← arrFld input "attempts"
    let ms ← atts.mapM (fun a => do
      let rows ← natFld a "rows"
      let blockRows ← asNatList (fldD a "blockRows" (Json.arr #[]))
      let schedule ← asNatList (fldD a "schedule" (Json.arr #[]))
      let failAt ← intFld a "failAt"
      let nb := blockRows.length
      -- write k of an attempt belongs to a worker's save (two writes per block) or, after the last
      -- block, to the coordinator (table index, profile, table)
      let fault : Option Nat := if failAt ≥ 0 && failAt.toNat < 2 * nb then some (failAt.toNat / 2) else none
      let coordFault := failAt ≥ 0 && failAt.toNat ≥ 2 * nb && failAt.toNat < 2 * nb + 3
      let p := (Pipe.init rows Facts.blockSize cap eff).run fault schedule
      pure (p, coordFault, blockRows))
    let mj := Json.mkObj [("attempts", Json.arr (ms.map (fun (p, cf, _) => Json.mkObj [
      ("returns", Json.bool (p.mayReturn true)), ("error", Json.bool (p.outcome.isNone || cf)),
      ("rowsCount", jNat p.rows), ("blocks", jNat p.nblk), ("atRest", Json.bool p.quiescent)])).toArray)]
    if resClass impl == "panic" then return reply mj false ["no-panic"]
    if resClass impl != "ok" then
      let isHang := (fldD impl "kind" Json.null).getStr?.toOption == some "hang"
      return reply mj false [if isHang then "always-terminates" else "unexpected-error"]
    let outs ← arrFld (fldD impl "val" Json.null) "attempts"
    if outs.length != ms.length then return reply mj false ["unexpected-error"]
    let mut viol : List String := []
    let mut agree := true
    for ((p, cf, blockRows), o) in ms.zip outs do
      let isErr := (fldD o "error" (Json.bool false)).getBool?.toOption.getD false
      let late := (fldD o "lateWrites" (jNat 0)).getNat?.toOption.getD 0
      let mErr := p.outcome.isNone || cf
      if !(p.mayReturn true) then agree := false
      if late > 0 then viol := viol ++ ["ingest-is-over-when-it-returns"]
      if mErr then
        if !isErr then viol := viol ++ ["error-in-one-worker-is-reported"]
      else if isErr then viol := viol ++ ["unexpected-error"]
      else
        let unreadable := (o.getObjVal? "unreadable").toOption.isSome
        let rows := (fldD o "rowsCount" (jNat 0)).getNat?.toOption.getD 0
        let nb := (fldD o "blocks" (jNat 0)).getNat?.toOption.getD 0
        let same := (fldD o "sameSum" (Json.bool false)).getBool?.toOption.getD false
        let total := blockRows.foldl (· + ·) 0
        viol := viol ++
          (if unreadable then ["error-in-one-worker-is-reported"] else []) ++
          (if same then [] else ["same-table-as-single-threaded-run"]) ++
          (if rows == total then [] else ["no-row-lost-or-duplicated"]) ++
          (if nb == blockRows.length then [] else ["no-block-lost-or-duplicated"])
        if !(p.rows == rows && p.nblk == nb && p.quiescent) then agree := false
    return reply mj agree viol.eraseDups
  | "merge" =>
    -- diff / merge pipelines under an unreadable object: must terminate, never panic; without a
    -- fault the outcome is the one-processor outcome
    let mj := Json.mkObj [("terminates", Json.bool true)]
    if resClass impl == "panic" then return reply mj false ["no-panic"]
    if resClass impl != "ok" then return reply mj false ["harness-setup-failed"]
    let v := fldD impl "val" Json.null
    let outcome := (fldD v "outcome" Json.null).getStr?.toOption.getD ""
    let refOutcome := (fldD v "refOutcome" Json.null).getStr?.toOption.getD ""
    let fault := (fldD input "fault" Json.null).getStr?.toOption.getD ""
    let got := fun (k : String) => (fldD v k (Json.bool false)).getBool?.toOption.getD false
    let colsOk := fun (kc kp : String) =>
      (fldD v kc Json.null).compress == (fldD input "columns" Json.null).compress &&
      (fldD v kp Json.null).compress == (fldD input "pk" Json.null).compress
    let viol :=
      (if outcome == "hang" || refOutcome == "hang" then ["always-terminates"] else []) ++
      (if refOutcome != "done" && refOutcome != "hang" then ["unexpected-error"] else []) ++
      (if fault == "none" && (outcome != refOutcome ||
          (fldD v "conflicts" Json.null).compress != (fldD v "refConflicts" Json.null).compress)
        then ["same-outcome-as-single-threaded-run"] else []) ++
      -- what the consumer is told with the first message (the column comparison) does not depend on
      -- when it reaches the merge channel: the merger then answers Columns() / PK() with the merged
      -- table's columns and key (every generated table has the base's), fault or no fault
      (if (got "gotColDiff" && !(colsOk "columns" "pk")) || (got "refGotColDiff" && !(colsOk "refColumns" "refPK"))
        then ["columns-and-key-known-once-first-message-is-received"] else []) ++
      (if (fault == "none" && outcome == "done" && !(got "gotColDiff")) || (refOutcome == "done" && !(got "refGotColDiff"))
        then ["first-message-carries-the-column-comparison"] else [])
    return reply mj (outcome != "hang") viol
  | "ingest-cli" =>
    -- the commit command's ingest helper on a failing store: terminates; an error exactly when a
    -- write was refused (nb blocks and nb block indices, then table index, profile, table = 2nb+3 writes)
    let mj := Json.mkObj [("terminates", Json.bool true)]
    if resClass impl == "panic" then return reply mj false ["no-panic"]
    if resClass impl != "ok" then
      let isHang := (fldD impl "kind" Json.null).getStr?.toOption == some "hang"
      return reply mj false [if isHang then "error-in-one-worker-is-reported" else "unexpected-error"]
    let failAt ← intFld input "failAt"
    let rows ← natFld input "rows"
    let nb := (rows + Facts.blockSize - 1) / Facts.blockSize
    let isErr := (fldD (fldD impl "val" Json.null) "error" (Json.bool false)).getBool?.toOption.getD false
    let expectErr := failAt ≥ 0 && failAt.toNat < 2 * nb + 3
    return reply mj true (if isErr == expectErr then [] else ["error-in-one-worker-is-reported"])
  | "pbar" =>
    -- a progress bar moved by any calls is finished with Done(), which must return
    let total ← intFld input "total"
    let opsJ ← (do if (fldD input "ops" Json.null).isNull then pure [] else arrFld input "ops")
    let ops ← opsJ.mapM (fun o => do
      let k ← strFld o "k"
      let v ← intFld o "v"
      match k with
      | "incr" => pure (PBarOp.incr v)
      | "total" => pure (PBarOp.setTotal v)
      | "cur" => pure (PBarOp.setCurrent v)
      | _ => throw s!"unknown pbar op {k}")
    let m := pbarDoneReturns Facts.pbarDoneForcesCompletion total ops
    let mj := Json.mkObj [("returns", Json.bool m)]
    if resClass impl == "panic" then return reply mj false ["no-panic"]
    if resClass impl != "ok" then return reply mj false ["unexpected-error"]
    let returned := (fldD (fldD impl "val" Json.null) "returned" (Json.bool false)).getBool?.toOption.getD false
    return reply mj (m == returned) (if returned then [] else ["always-terminates"])
  | _ => throw s!"unknown op {op}"

end Wrgl.Drv
