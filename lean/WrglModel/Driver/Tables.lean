import WrglModel.Driver.Util
import WrglModel.Model.Diff
import WrglModel.Spec.Diff
open Lean
namespace Wrgl.Drv

/-- decoded table dump as written by harness/tables.go -/
structure BlockD where
  sum : Bytes
  rows : List Row
  idx : Option BIdx
  idxSum : Bytes

structure TableD where
  sum : Bytes
  columns : Row
  pk : List Nat
  rowsCount : Nat
  blocks : List BlockD
  tblIdx : List (List Bytes)
  numIdx : Nat
  problems : List String

def bidxOf (j : Json) : Except String BIdx := do
  let so ← asNatList (← fld j "sortedOff")
  let rows ← (← arrFld j "rows").mapM fun r => do
    match ← asArr r with
    | [a, b] => return (← asBytes a, ← asBytes b)
    | _ => throw "bad idx row"
  return { sortedOff := so, rows := rows }

def blockOf (j : Json) : Except String BlockD := do
  let sum ← asBytes (← fld j "sum")
  let rows ← match j.getObjVal? "rows" with
    | .ok r => asRows r
    | .error _ => pure []
  let idx ← match j.getObjVal? "idx" with
    | .ok Json.null => pure none
    | .ok r => (some <$> bidxOf r)
    | .error _ => pure none
  let idxSum ← match j.getObjVal? "idxSum" with
    | .ok r => asBytes r
    | .error _ => pure []
  return { sum := sum, rows := rows, idx := idx, idxSum := idxSum }

def tableOf (j : Json) : Except String TableD := do
  let problems ← match j.getObjVal? "problems" with
    | .ok r => (do (← asArr r).mapM asStr)
    | .error _ => pure []
  return {
    sum := ← asBytes (← fld j "sum"),
    columns := ← asRow (← fld j "columns"),
    pk := ← asNatList (← fld j "pk"),
    rowsCount := ← natFld j "rowsCount",
    blocks := ← (← arrFld j "blocks").mapM blockOf,
    tblIdx := ← asRows (← fld j "tblIdx"),
    numIdx := ← natFld j "numBlockIndices",
    problems := problems }

def TableD.toDTable (t : TableD) : DTable :=
  { blocks := t.blocks.map (fun b => b.idx.getD { sortedOff := [], rows := [] }), tblIdx := t.tblIdx }

/-- rows with keys, sums (taken from the block index by position) and absolute offsets -/
def TableD.krows (blockSize : Nat) (t : TableD) : List KRow :=
  (t.blocks.zipIdx).flatMap fun (b, bi) =>
    let sums := match b.idx with
      | some i => i.rows
      | none => []
    (b.rows.zipIdx).map fun (r, ri) =>
      let s := (sums[ri]?).getD ([], [])
      { key := keyOf t.pk r, cells := r, pkSum := s.1, rowSum := s.2, off := bi * blockSize + ri }

end Wrgl.Drv
