import WrglModel.Driver.Util
import WrglModel.Model.Merge
import WrglModel.Spec.Merge
open Lean
namespace Wrgl.Drv

def isPrefixPk (pk : List Nat) : Bool := !pk.isEmpty && pk == List.range pk.length

def handleC05 (op : String) (input impl : Json) : Except String Json := do
  match op with
  | "merge" =>
    let columns ← asRow (fldD input "columns" (Json.arr #[]))
    let pk ← asNatList (fldD input "pk" (Json.arr #[]))
    let base ← asRows (fldD input "base" (Json.arr #[]))
    let branches ← (← asArr (fldD input "branches" (Json.arr #[]))).mapM asRows
    let nCols := columns.length
    -- the input carries per-table specs; all-same-columns is signalled by equal widths of all rows
    let sameCols := (base :: branches).all (fun t => t.all (fun r => r.length == nCols))
    if resClass impl == "panic" then return reply Json.null false ["no-panic"]
    if resClass impl != "ok" then return reply Json.null false ["unexpected-error"]
    let v := fldD impl "val" Json.null
    let iCols ← asRow (fldD v "columns" (Json.arr #[]))
    let iRows ← asRows (fldD v "rows" (Json.arr #[]))
    let iConf ← (← asArr (fldD v "conflicts" (Json.arr #[]))).mapM fun c => do
      return (← asRow (← fld c "key"), ← asRow (← fld c "row"), ← asNatList (← fld c "cols"))
    if !sameCols then
      -- column-changing branches: only crash-freedom is decided here (see DESIGN.md, C05 partial)
      return reply Json.null true []
    let sortK := refSort pk
    let spec := mergeSpec sortK nCols pk base branches
    -- expected rows in the merged layout (primary key hoisted to the front)
    let expRows := spec.rows.map (hoistRow pk)
    let expCols := hoistRow pk columns
    let keySort := fun (l : List (List Bytes)) => l.mergeSort (fun a b => keyCmp a b != .gt)
    let viol : List String :=
      (if keySort (iConf.map (·.1)) == keySort spec.conflictKeys then [] else ["conflicts-reported-exactly"]) ++
      (if iRows == expRows then [] else ["non-conflicting-changes-kept-and-untouched-rows-unchanged"]) ++
      (if iCols == expCols then [] else ["columns-under-their-own-names"])
    -- model: the pipeline as implemented, for the layout in which the key is a prefix of the columns
    let m := mergeTablesModel sortK nCols pk base branches
    let mConf := (m.conflicts.mergeSort (fun a b => keyCmp a.1 b.1 != .gt))
    let iConfS := (iConf.mergeSort (fun a b => keyCmp a.1 b.1 != .gt))
    let agree := if isPrefixPk pk then (mConf == iConfS && m.rows == iRows) else true
    let mj := Json.mkObj [("conflicts", Json.arr (mConf.map (fun c => Json.mkObj [("key", jRow c.1), ("row", jRow c.2.1), ("cols", jNats c.2.2)])).toArray),
                          ("rows", jRows m.rows)]
    return reply mj agree viol
  | _ => throw s!"unknown op {op}"

end Wrgl.Drv
