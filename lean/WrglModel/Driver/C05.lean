import WrglModel.Driver.Util
import WrglModel.Model.Merge
import WrglModel.Model.MergeCols
import WrglModel.Spec.Merge
open Lean
namespace Wrgl.Drv

def isPrefixPk (pk : List Nat) : Bool := !pk.isEmpty && pk == List.range pk.length

def handleC05 (op : String) (input impl : Json) : Except String Json := do
  match op with
  | "merge" =>
    let columns ← asRow (fldD input "columns" (Json.arr #[]))
    let pk ← asNatList (fldD input "pk" (Json.arr #[]))
    let base ← asRows (fldD input "base" (Json.arr #[]))
    let branches ← (← asArr (fldD input "branches" (Json.arr #[]))).mapM asRows
    let nCols := columns.length
    -- the input carries per-table specs; all-same-columns is signalled by equal widths of all rows
    let sameCols := (base :: branches).all (fun t => t.all (fun r => r.length == nCols))
    if resClass impl == "panic" then return reply Json.null false ["no-panic"]
    if resClass impl != "ok" then return reply Json.null false ["unexpected-error"]
    let v := fldD impl "val" Json.null
    let iCols ← asRow (fldD v "columns" (Json.arr #[]))
    let iRows ← asRows (fldD v "rows" (Json.arr #[]))
    let iConf ← (← asArr (fldD v "conflicts" (Json.arr #[]))).mapM fun c => do
      return (← asRow (← fld c "key"), ← asRow (← fld c "row"), ← asNatList (← fld c "cols"))
    let bcolsJ := (fldD input "branchColumns" (Json.arr #[])).getArr?.toOption.getD #[]
    let bcols ← bcolsJ.toList.mapM asRow
    let colsDiffer := bcols.any (fun c => c != columns)
    if !sameCols || colsDiffer then
      -- column-changing branches: the per-key resolution (by column NAME) is compared with the
      -- model `resolveRecCols`; the layout of untouched rows in the final table is the known
      -- finding C05-untouched-rows-base-layout and is not judged here
      let pkNames ← asRow (fldD input "pkNames" (Json.arr #[]))
      if pkNames.isEmpty || bcols.length != branches.length then return reply Json.null true []
      let cdNames ← asRow (fldD v "cdNames" (Json.arr #[]))
      let keyIn := fun (cols : Row) (r : Row) => pkNames.map (fun n => (((cols.zip r).find? (fun p => p.1 == n)).map (·.2)).getD [])
      let tables : List (Row × List Row) := (columns, base) :: bcols.zip branches
      let keys := (tables.flatMap (fun (c, rows) => rows.map (keyIn c))).eraseDups
      let names := mergedNames columns bcols
      let byName := fun (ns : Row) (r : Row) => (ns.zip r).mergeSort (fun a b => bytesCmp a.1 b.1 != .gt)
      let res := keys.map (fun k =>
        let ob := base.find? (fun r => keyIn columns r == k)
        let os := (bcols.zip branches).map (fun (c, rows) => rows.find? (fun r => keyIn c r == k))
        -- keys present and identical in the base and all branches never reach the resolver
        let skip := ob.isSome && os.all (fun o => o == ob)
        (k, if skip then Resolution.removed else resolveRecCols columns bcols ob os))
      let mConf := (res.filterMap (fun (k, r) => match r with
        | .conflict row cols => some (k, byName names row, (cols.filterMap (fun i => names[i]?)).mergeSort (fun a b => bytesCmp a b != .gt))
        | _ => none)).mergeSort (fun a b => keyCmp a.1 b.1 != .gt)
      let iConfN := (iConf.map (fun (k, row, cols) =>
        (k, byName cdNames row, (cols.filterMap (fun i => cdNames[i]?)).mergeSort (fun a b => bytesCmp a b != .gt)))).mergeSort (fun a b => keyCmp a.1 b.1 != .gt)
      -- resolved rows must be in the final table, cell for cell under their column names
      let resolvedOk := res.all (fun (k, r) => match r with
        | .resolved row => iRows.any (fun ir => keyIn iCols ir == k && byName iCols ir == byName names row)
        | _ => true)
      let sortB := fun (l : Row) => l.mergeSort (fun a b => bytesCmp a b != .gt)
      let violC : List String :=
        (if mConf.map (·.1) == iConfN.map (·.1) then [] else ["conflicts-reported-exactly"]) ++
        (if mConf == iConfN then [] else ["conflict-content-by-column-name"]) ++
        -- with the key away from the front the collector sorts and de-duplicates merged-layout rows on the
        -- base's key position (known finding C05-untouched-rows-base-layout): same clause name as there
        (if resolvedOk then [] else [if isPrefixPk pk then "resolved-rows-kept-under-their-column-names"
                                     else "non-conflicting-changes-kept-and-untouched-rows-unchanged"]) ++
        (if sortB iCols == sortB names && sortB cdNames == sortB names then [] else ["columns-under-their-own-names"])
      let mj := Json.mkObj [("conflicts", Json.arr (mConf.map (fun c => Json.mkObj [("key", jRow c.1),
        ("cols", jRow c.2.2)])).toArray)]
      return reply mj (mConf == iConfN) violC
    let sortK := refSort pk
    let spec := mergeSpec sortK nCols pk base branches
    -- expected rows in the merged layout (primary key hoisted to the front)
    let expRows := spec.rows.map (hoistRow pk)
    let expCols := hoistRow pk columns
    let keySort := fun (l : List (List Bytes)) => l.mergeSort (fun a b => keyCmp a b != .gt)
    let viol : List String :=
      (if keySort (iConf.map (·.1)) == keySort spec.conflictKeys then [] else ["conflicts-reported-exactly"]) ++
      (if iRows == expRows then [] else ["non-conflicting-changes-kept-and-untouched-rows-unchanged"]) ++
      (if iCols == expCols then [] else ["columns-under-their-own-names"])
    -- model: the pipeline as implemented, for the layout in which the key is a prefix of the columns
    let m := mergeTablesModel sortK nCols pk base branches
    let mConf := (m.conflicts.mergeSort (fun a b => keyCmp a.1 b.1 != .gt))
    let iConfS := (iConf.mergeSort (fun a b => keyCmp a.1 b.1 != .gt))
    let agree := if isPrefixPk pk then (mConf == iConfS && m.rows == iRows) else true
    let mj := Json.mkObj [("conflicts", Json.arr (mConf.map (fun c => Json.mkObj [("key", jRow c.1), ("row", jRow c.2.1), ("cols", jNats c.2.2)])).toArray),
                          ("rows", jRows m.rows)]
    return reply mj agree viol
  | "merge-cli" =>
    -- `wrgl commit` x3, `wrgl merge main b1 b2`, `wrgl export main`: the exported table must hold, for
    -- every key, the row the by-name model resolves it to, under the merged columns minus those a
    -- branch removed. The scenario is conflict-free by construction (the model must agree).
    let columns ← asRow (fldD input "columns" (Json.arr #[]))
    let pkNames ← asRow (fldD input "pkNames" (Json.arr #[]))
    let base ← asRows (fldD input "base" (Json.arr #[]))
    let branches ← (← asArr (fldD input "branches" (Json.arr #[]))).mapM asRows
    let bcols ← ((fldD input "branchColumns" (Json.arr #[])).getArr?.toOption.getD #[]).toList.mapM asRow
    if resClass impl == "panic" then return reply Json.null false ["no-panic"]
    let keyIn := fun (cols : Row) (r : Row) => pkNames.map (fun n => (((cols.zip r).find? (fun p => p.1 == n)).map (·.2)).getD [])
    let tables : List (Row × List Row) := (columns, base) :: bcols.zip branches
    let keys := (tables.flatMap (fun (c, rows) => rows.map (keyIn c))).eraseDups
    let names := mergedNames columns bcols
    let removedNames := names.filter (fun n => columns.contains n && bcols.any (fun c => !c.contains n))
    let finalNames := names.filter (fun n => !removedNames.contains n)
    let res := keys.map (fun k =>
      let ob := base.find? (fun r => keyIn columns r == k)
      let os := (bcols.zip branches).map (fun (c, rows) => rows.find? (fun r => keyIn c r == k))
      let skip := ob.isSome && os.all (fun o => o == ob)
      (k, ob, if skip then Resolution.removed else resolveRecCols columns bcols ob os))
    let conflictFree := res.all (fun (_, _, r) => match r with
      | .conflict _ _ => false
      | _ => true)
    let byName := fun (ns : Row) (r : Row) => ((ns.zip r).filter (fun p => finalNames.contains p.1)).mergeSort (fun a b => bytesCmp a.1 b.1 != .gt)
    let expRows := res.filterMap (fun (_, ob, r) => match r with
      | .resolved row => some (byName names row)
      | .removed => ob.map (fun b => byName columns b)      -- untouched by every branch
      | .conflict _ _ => none)
    let mj := Json.mkObj [("conflictFree", Json.bool conflictFree), ("rows", jNat expRows.length)]
    if !conflictFree then return reply mj true []      -- not a case for this oracle
    if resClass impl != "ok" then return reply mj false ["unexpected-error"]
    let v := fldD impl "val" Json.null
    let iCols ← asRow (fldD v "columns" (Json.arr #[]))
    let iRows ← asRows (fldD v "rows" (Json.arr #[]))
    let sortB := fun (l : Row) => l.mergeSort (fun a b => bytesCmp a b != .gt)
    let sortR := fun (l : List (List (Bytes × Bytes))) => l.mergeSort (fun a b => (a.map (·.2)).toString ≤ (b.map (·.2)).toString)
    let iBy := iRows.map (fun r => (iCols.zip r).mergeSort (fun a b => bytesCmp a.1 b.1 != .gt))
    let viol : List String :=
      (if sortB iCols == sortB finalNames then [] else ["columns-under-their-own-names"]) ++
      (if expRows.all iBy.contains && iBy.all expRows.contains && iBy.length == expRows.length then []
       else ["non-conflicting-changes-kept-and-untouched-rows-unchanged"])
    let _ := sortR
    return reply mj viol.isEmpty viol
  | _ => throw s!"unknown op {op}"

end Wrgl.Drv
