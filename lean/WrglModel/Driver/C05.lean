import WrglModel.Driver.Util
import WrglModel.Model.Merge
import WrglModel.Model.MergeCols
import WrglModel.Spec.Merge
import WrglModel.Spec.MergeBase
open Lean
namespace Wrgl.Drv

def isPrefixPk (pk : List Nat) : Bool := !pk.isEmpty && pk == List.range pk.length


/-! ### merge over a commit history (`wrgl merge BRANCH COMMIT` run on a repository)

A reference of what every branch must hold after each step, from the property alone: the commit graph
is a list of nodes (parents, table); `merge BRANCH COMMIT` with heads `a` and `b`

* `b` reachable from `a` (including `a = b`): the commit merged in is the shared base (or both are the
  same commit), so merge(base; X, base) = X resp. merge(base; X, X) = X: BRANCH keeps `a`'s table;
* `a` reachable from `b`: BRANCH itself is the base, merge(base; base, X) = X: BRANCH gets `b`'s table;
* otherwise, with a unique nearest common ancestor `c`: the by-name three-way resolution of
  (table c; table a, table b), judged when it is free of conflicts.

No other branch changes. -/

structure HTab where
  cols : Row
  rows : List Row
  deriving Inhabited

structure HNode where
  parents : List Nat
  tab : HTab
  deriving Inhabited

structure HSt where
  nodes : Array HNode := #[]
  heads : List (String × Nat) := []

def HSt.head? (s : HSt) (b : String) : Option Nat := (s.heads.find? (fun h => h.1 == b)).map (·.2)
def HSt.setHead (s : HSt) (b : String) (n : Nat) : HSt :=
  { s with heads := s.heads.filter (fun h => h.1 != b) ++ [(b, n)] }
def HSt.push (s : HSt) (b : String) (parents : List Nat) (t : HTab) : HSt :=
  ({ s with nodes := s.nodes.push { parents := parents, tab := t } }).setHead b s.nodes.size
def HSt.tabOf (s : HSt) (n : Nat) : HTab := ((s.nodes[n]?).map (·.tab)).getD default

/-- the commits reachable from `n` through parent links, `n` included -/
def hAncestors (nodes : Array HNode) (n : Nat) : List Nat :=
  let rec go : Nat → List Nat → List Nat → List Nat
    | 0, _, seen => seen
    | fuel + 1, frontier, seen =>
      let next := ((frontier.flatMap (fun i => ((nodes[i]?).map (·.parents)).getD [])).filter (fun p => !seen.contains p)).eraseDups
      if next.isEmpty then seen else go fuel next (seen ++ next)
  go nodes.size [n] [n]

/-- the common ancestors of `a` and `b` none of whose descendants is a common ancestor too -/
def hNearestCommon (nodes : Array HNode) (a b : Nat) : List Nat :=
  let ancB := hAncestors nodes b
  let common := (hAncestors nodes a).filter ancB.contains
  common.filter (fun c => !common.any (fun d => d != c && (hAncestors nodes d).contains c))

def HTab.byName (t : HTab) : List (List (Bytes × Bytes)) :=
  t.rows.map (fun r => (t.cols.zip r).mergeSort (fun a b => bytesCmp a.1 b.1 != .gt))

def sameColumnNames (a b : HTab) : Bool :=
  a.cols.mergeSort (fun x y => bytesCmp x y != .gt) == b.cols.mergeSort (fun x y => bytesCmp x y != .gt)

/-- the same rows, cell for cell under the column names, in any row and column order -/
def sameRowsByName (a b : HTab) : Bool :=
  let x := a.byName
  let y := b.byName
  x.length == y.length && x.all y.contains && y.all x.contains

/-- the by-name three-way resolution of whole tables (`resolveRecCols` per key): `none` when some key
    is in conflict, else the merged table under the merged columns minus those a branch removed -/
def threeWayByName (pkNames : Row) (base : HTab) (brs : List HTab) : Option HTab :=
  let keyIn := fun (cols : Row) (r : Row) => pkNames.map (fun n => (((cols.zip r).find? (fun p => p.1 == n)).map (·.2)).getD [])
  let bcols := brs.map (·.cols)
  let keys := ((base :: brs).flatMap (fun t => t.rows.map (keyIn t.cols))).eraseDups
  let names := mergedNames base.cols bcols
  let finalNames := names.filter (fun n => !(base.cols.contains n && bcols.any (fun c => !c.contains n)))
  let res := keys.map (fun k =>
    let ob := base.rows.find? (fun r => keyIn base.cols r == k)
    let os := brs.map (fun t => t.rows.find? (fun r => keyIn t.cols r == k))
    -- a key present and identical in the base and all branches never reaches the resolver
    let untouched := ob.isSome && os.all (fun o => o == ob)
    (ob, if untouched then none else some (resolveRecCols base.cols bcols ob os)))
  let conflictFree := res.all (fun (_, r) => match r with
    | some (.conflict _ _) => false
    | _ => true)
  if !conflictFree then none else
  some { cols := finalNames, rows := res.filterMap (fun (ob, r) => match r with
    | none => ob.map (rearrange finalNames base.cols)      -- untouched by every branch
    | some (.resolved row) => some (rearrange finalNames names row)
    | some .removed => none                                 -- removed by a branch, modified by none
    | some (.conflict _ _) => none) }

/-- what one `merge BRANCH COMMIT` may do, relative to one shared base -/
inductive HOutcome where
  | holds (t : HTab) (after : HSt) (kind clause : String)   -- the command succeeds and BRANCH holds `t`
  | refused (kind clause : String)                          -- the command fails and nothing changes

/-- the outcome the merge laws demand of `merge BRANCH COMMIT` (heads `a`, `b`) relative to the shared
    base `c`; `none`: the three-way resolution has a conflict (the merge tool would open) -/
def hOutcomeFor (pkNames : Row) (s : HSt) (branch : String) (a b c : Nat) (ff : String) : Option HOutcome :=
  if c == b then
    -- merge(base; X, base) = X, merge(base; X, X) = X
    some (.holds (s.tabOf a) (if a != b && ff == "no-ff" then s.push branch [a, b] (s.tabOf a) else s)
      (if a == b then "same-commit" else "other-contained") (if a == b then "merge-of-X-and-X-is-X" else "merge-of-X-and-base-is-X"))
  else if c == a then
    -- merge(base; base, X) = X
    some (.holds (s.tabOf b) (if ff == "no-ff" then s.push branch [a, b] (s.tabOf b) else s.setHead branch b)
      "branch-contained" "merge-of-X-and-base-is-X")
  else if ff == "ff-only" then some (.refused "rejected" "rejected-merge-changes-nothing")
  else (threeWayByName pkNames (s.tabOf c) [s.tabOf a, s.tabOf b]).map (fun t =>
    .holds t (s.push branch [a, b] t) "three-way" "non-conflicting-changes-kept-and-untouched-rows-unchanged")

def asHTab (j : Json) : Except String HTab := do
  return { cols := ← asRow (fldD j "columns" (Json.arr #[])), rows := ← asRows (fldD j "rows" (Json.arr #[])) }

def sameTable (a b : HTab) : Bool := sameColumnNames a b && sameRowsByName a b

/-- does the observed step (status, table of BRANCH afterwards) show this outcome -/
def hShows (s : HSt) (a : Nat) (failed : Bool) (exported : Option HTab) : HOutcome → Bool
  | .holds t _ _ _ => !failed && (exported.map (sameTable t)).getD false
  | .refused _ _ => failed && (exported.map (sameTable (s.tabOf a))).getD false

/-- replays the steps; returns the violated clauses and a trace of what each merge step was.

    The base the laws refer to is the nearest common ancestor. WHICH shared commit the command takes as
    the base is the business of C11 (known finding C11-seek-not-input: a commit contained in BRANCH is
    not always recognised as the base, an older shared commit is taken instead); a step that shows the
    outcome demanded relative to another shared commit is therefore followed, not reported (the trace
    says `older-base`). Relative to whatever shared base, the data must be what the merge rule says. -/
def hReplay (pkNames : Row) (tables : Array HTab) : List (Json × Json) → HSt → List String → List String → Except String (List String × List String)
  | [], _, viol, trace => return (viol, trace)
  | (st, ir) :: rest, s, viol, trace => do
    let op ← strFld st "op"
    let branch ← strFld st "branch"
    match op with
    | "commit" =>
      let t := (tables[← natFld st "table"]?).getD default
      hReplay pkNames tables rest (s.push branch ((s.head? branch).toList) t) viol trace
    | "branch" =>
      match s.head? (← strFld st "from") with
      | some n => hReplay pkNames tables rest (s.setHead branch n) viol trace
      | none => throw "branch from an unknown branch"
    | "merge" =>
      let ff := (fldD st "ff" (Json.str "")).getStr?.toOption.getD ""
      match s.head? branch, s.head? (← strFld st "from") with
      | some a, some b =>
        let failed := (fldD ir "res" Json.null).getStr?.toOption.getD "?" != "ok"
        let heads := fldD ir "heads" (Json.mkObj [])
        let exported ← match heads.getObjVal? branch with
          | .ok hj => pure (some (← asHTab hj))
          | .error _ => pure none
        -- branches that are not merged into keep their tables
        let mut others : List String := []
        for (name, n) in s.heads do
          if name != branch then
            match heads.getObjVal? name with
            | .ok hj => if !sameTable (← asHTab hj) (s.tabOf n) then others := others ++ ["branches-not-merged-into-stay-unchanged"]
            | .error _ => others := others ++ ["every-branch-exported"]
        if exported.isNone then others := others ++ ["every-branch-exported"]
        if !others.isEmpty then return (viol ++ others, trace ++ ["other-branch!"])
        match hNearestCommon s.nodes a b with
        | [c] =>
          match hOutcomeFor pkNames s branch a b c ff with
          | none => return (viol ++ others, trace ++ ["not-judged"])   -- the rest of the history depends on it
          | some want =>
            let (s', kind, clause) : HSt × String × String := match want with
              | .holds _ after k cl => (after, k, cl)
              | .refused k cl => (s, k, cl)
            if hShows s a failed exported want then
              hReplay pkNames tables rest s' (viol ++ others) (trace ++ [kind])
            else
              let ancB := hAncestors s.nodes b
              let older := ((hAncestors s.nodes a).filter (fun d => d != c && ancB.contains d)).filterMap (fun d =>
                match hOutcomeFor pkNames s branch a b d ff with
                | some o => some o
                | none => some (.refused "conflict" "conflict-reported"))
              match older.find? (hShows s a failed exported) with
              | some (.holds _ after k _) => hReplay pkNames tables rest after (viol ++ others) (trace ++ ["older-base:" ++ k])
              | some (.refused k _) => hReplay pkNames tables rest s (viol ++ others) (trace ++ ["older-base:" ++ k])
              | none =>
                let v : List String := match want with
                  | .holds t _ _ _ =>
                    if failed then ["unexpected-error"]
                    else match exported with
                      | some e => (if sameColumnNames e t then [] else ["columns-under-their-own-names"]) ++
                                  (if sameRowsByName e t then [] else [clause])
                      | none => []
                  | .refused _ _ => [clause]
                -- what the later steps must show depends on this one: the replay ends here
                return (viol ++ others ++ v, trace ++ [kind ++ "!"])
        | _ => return (viol ++ others, trace ++ ["not-judged"])
      | _, _ => throw "merge of an unknown branch"
    | _ => throw s!"unknown step {op}"

def handleC05 (op : String) (input impl : Json) : Except String Json := do
  match op with
  | "merge" =>
    let columns ← asRow (fldD input "columns" (Json.arr #[]))
    let pk ← asNatList (fldD input "pk" (Json.arr #[]))
    let base ← asRows (fldD input "base" (Json.arr #[]))
    let branches ← (← asArr (fldD input "branches" (Json.arr #[]))).mapM asRows
    let nCols := columns.length
    -- the input carries per-table specs; all-same-columns is signalled by equal widths of all rows
    let sameCols := (base :: branches).all (fun t => t.all (fun r => r.length == nCols))
    if resClass impl == "panic" then return reply Json.null false ["no-panic"]
    if resClass impl != "ok" then return reply Json.null false ["unexpected-error"]
    let v := fldD impl "val" Json.null
    let iCols ← asRow (fldD v "columns" (Json.arr #[]))
    let iRows ← asRows (fldD v "rows" (Json.arr #[]))
    let iConf ← (← asArr (fldD v "conflicts" (Json.arr #[]))).mapM fun c => do
      return (← asRow (← fld c "key"), ← asRow (← fld c "row"), ← asNatList (← fld c "cols"))
    let bcolsJ := (fldD input "branchColumns" (Json.arr #[])).getArr?.toOption.getD #[]
    let bcols ← bcolsJ.toList.mapM asRow
    let colsDiffer := bcols.any (fun c => c != columns)
    if !sameCols || colsDiffer then
      -- column-changing branches: the per-key resolution (by column NAME) is compared with the
      -- model `resolveRecCols`; the layout of untouched rows in the final table is the known
      -- finding C05-untouched-rows-base-layout and is not judged here
      let pkNames ← asRow (fldD input "pkNames" (Json.arr #[]))
      if pkNames.isEmpty || bcols.length != branches.length then return reply Json.null true []
      let cdNames ← asRow (fldD v "cdNames" (Json.arr #[]))
      let keyIn := fun (cols : Row) (r : Row) => pkNames.map (fun n => (((cols.zip r).find? (fun p => p.1 == n)).map (·.2)).getD [])
      let tables : List (Row × List Row) := (columns, base) :: bcols.zip branches
      let keys := (tables.flatMap (fun (c, rows) => rows.map (keyIn c))).eraseDups
      let names := mergedNames columns bcols
      let byName := fun (ns : Row) (r : Row) => (ns.zip r).mergeSort (fun a b => bytesCmp a.1 b.1 != .gt)
      let res := keys.map (fun k =>
        let ob := base.find? (fun r => keyIn columns r == k)
        let os := (bcols.zip branches).map (fun (c, rows) => rows.find? (fun r => keyIn c r == k))
        -- keys present and identical in the base and all branches never reach the resolver
        let skip := ob.isSome && os.all (fun o => o == ob)
        (k, if skip then Resolution.removed else resolveRecCols columns bcols ob os))
      let mConf := (res.filterMap (fun (k, r) => match r with
        | .conflict row cols => some (k, byName names row, (cols.filterMap (fun i => names[i]?)).mergeSort (fun a b => bytesCmp a b != .gt))
        | _ => none)).mergeSort (fun a b => keyCmp a.1 b.1 != .gt)
      let iConfN := (iConf.map (fun (k, row, cols) =>
        (k, byName cdNames row, (cols.filterMap (fun i => cdNames[i]?)).mergeSort (fun a b => bytesCmp a b != .gt)))).mergeSort (fun a b => keyCmp a.1 b.1 != .gt)
      -- resolved rows must be in the final table, cell for cell under their column names
      let resolvedOk := res.all (fun (k, r) => match r with
        | .resolved row => iRows.any (fun ir => keyIn iCols ir == k && byName iCols ir == byName names row)
        | _ => true)
      let sortB := fun (l : Row) => l.mergeSort (fun a b => bytesCmp a b != .gt)
      let violC : List String :=
        (if mConf.map (·.1) == iConfN.map (·.1) then [] else ["conflicts-reported-exactly"]) ++
        (if mConf == iConfN then [] else ["conflict-content-by-column-name"]) ++
        -- with the key away from the front the collector sorts and de-duplicates merged-layout rows on the
        -- base's key position (known finding C05-untouched-rows-base-layout): same clause name as there
        (if resolvedOk then [] else [if isPrefixPk pk then "resolved-rows-kept-under-their-column-names"
                                     else "non-conflicting-changes-kept-and-untouched-rows-unchanged"]) ++
        (if sortB iCols == sortB names && sortB cdNames == sortB names then [] else ["columns-under-their-own-names"])
      let mj := Json.mkObj [("conflicts", Json.arr (mConf.map (fun c => Json.mkObj [("key", jRow c.1),
        ("cols", jRow c.2.2)])).toArray)]
      return reply mj (mConf == iConfN) violC
    let sortK := refSort pk
    let spec := mergeSpec sortK nCols pk base branches
    -- expected rows in the merged layout (primary key hoisted to the front)
    let expRows := spec.rows.map (hoistRow pk)
    let expCols := hoistRow pk columns
    let keySort := fun (l : List (List Bytes)) => l.mergeSort (fun a b => keyCmp a b != .gt)
    let viol : List String :=
      (if keySort (iConf.map (·.1)) == keySort spec.conflictKeys then [] else ["conflicts-reported-exactly"]) ++
      (if iRows == expRows then [] else ["non-conflicting-changes-kept-and-untouched-rows-unchanged"]) ++
      (if iCols == expCols then [] else ["columns-under-their-own-names"])
    -- model: the pipeline as implemented, for the layout in which the key is a prefix of the columns
    let m := mergeTablesModel sortK nCols pk base branches
    let mConf := (m.conflicts.mergeSort (fun a b => keyCmp a.1 b.1 != .gt))
    let iConfS := (iConf.mergeSort (fun a b => keyCmp a.1 b.1 != .gt))
    let agree := if isPrefixPk pk then (mConf == iConfS && m.rows == iRows) else true
    let mj := Json.mkObj [("conflicts", Json.arr (mConf.map (fun c => Json.mkObj [("key", jRow c.1), ("row", jRow c.2.1), ("cols", jNats c.2.2)])).toArray),
                          ("rows", jRows m.rows)]
    return reply mj agree viol
  | "merge-cli" =>
    -- `wrgl commit` x3, `wrgl merge main b1 b2`, `wrgl export main`: the exported table must hold, for
    -- every key, the row the by-name model resolves it to, under the merged columns minus those a
    -- branch removed. The scenario is conflict-free by construction (the model must agree).
    let columns ← asRow (fldD input "columns" (Json.arr #[]))
    let pkNames ← asRow (fldD input "pkNames" (Json.arr #[]))
    let base ← asRows (fldD input "base" (Json.arr #[]))
    let branches ← (← asArr (fldD input "branches" (Json.arr #[]))).mapM asRows
    let bcols ← ((fldD input "branchColumns" (Json.arr #[])).getArr?.toOption.getD #[]).toList.mapM asRow
    if resClass impl == "panic" then return reply Json.null false ["no-panic"]
    let keyIn := fun (cols : Row) (r : Row) => pkNames.map (fun n => (((cols.zip r).find? (fun p => p.1 == n)).map (·.2)).getD [])
    let tables : List (Row × List Row) := (columns, base) :: bcols.zip branches
    let keys := (tables.flatMap (fun (c, rows) => rows.map (keyIn c))).eraseDups
    let names := mergedNames columns bcols
    let removedNames := names.filter (fun n => columns.contains n && bcols.any (fun c => !c.contains n))
    let finalNames := names.filter (fun n => !removedNames.contains n)
    let res := keys.map (fun k =>
      let ob := base.find? (fun r => keyIn columns r == k)
      let os := (bcols.zip branches).map (fun (c, rows) => rows.find? (fun r => keyIn c r == k))
      let skip := ob.isSome && os.all (fun o => o == ob)
      (k, ob, if skip then Resolution.removed else resolveRecCols columns bcols ob os))
    let conflictFree := res.all (fun (_, _, r) => match r with
      | .conflict _ _ => false
      | _ => true)
    let byName := fun (ns : Row) (r : Row) => ((ns.zip r).filter (fun p => finalNames.contains p.1)).mergeSort (fun a b => bytesCmp a.1 b.1 != .gt)
    let expRows := res.filterMap (fun (_, ob, r) => match r with
      | .resolved row => some (byName names row)
      | .removed => ob.map (fun b => byName columns b)      -- untouched by every branch
      | .conflict _ _ => none)
    let mj := Json.mkObj [("conflictFree", Json.bool conflictFree), ("rows", jNat expRows.length)]
    if !conflictFree then return reply mj true []      -- not a case for this oracle
    if resClass impl != "ok" then return reply mj false ["unexpected-error"]
    let v := fldD impl "val" Json.null
    let iCols ← asRow (fldD v "columns" (Json.arr #[]))
    let iRows ← asRows (fldD v "rows" (Json.arr #[]))
    let sortB := fun (l : Row) => l.mergeSort (fun a b => bytesCmp a b != .gt)
    let sortR := fun (l : List (List (Bytes × Bytes))) => l.mergeSort (fun a b => (a.map (·.2)).toString ≤ (b.map (·.2)).toString)
    let iBy := iRows.map (fun r => (iCols.zip r).mergeSort (fun a b => bytesCmp a.1 b.1 != .gt))
    let viol : List String :=
      (if sortB iCols == sortB finalNames then [] else ["columns-under-their-own-names"]) ++
      (if expRows.all iBy.contains && iBy.all expRows.contains && iBy.length == expRows.length then []
       else ["non-conflicting-changes-kept-and-untouched-rows-unchanged"])
    let _ := sortR
    return reply mj viol.isEmpty viol
  | "merge-cli-deliver" =>
    -- `wrgl merge b1 b2` with --no-gui / --no-commit / neither, on a healthy repository or on one with an
    -- object missing. The property: the outcome never silently differs from the merge. Whenever the
    -- command reports success, what it delivered (the CONFLICTS file's conflict keys and merged rows,
    -- the MERGE file, the merge commit's table) must be the three-way merge of the committed tables
    -- (`mergeKey` per key); failing is acceptable only when an object was taken away.
    let columns ← asRow (fldD input "columns" (Json.arr #[]))
    let pk ← asNatList (fldD input "pk" (Json.arr #[]))
    let base ← asRows (fldD input "base" (Json.arr #[]))
    let branches ← (← asArr (fldD input "branches" (Json.arr #[]))).mapM asRows
    let mode := (fldD input "mode" (Json.str "")).getStr?.toOption.getD ""
    let faulty := match fldD input "fault" Json.null with
      | Json.null => false
      | _ => true
    if resClass impl == "panic" then return reply Json.null false ["no-panic"]
    if resClass impl != "ok" then return reply Json.null false ["unexpected-error"]
    let v := fldD impl "val" Json.null
    let failed := (fldD v "failed" (Json.bool false)).getBool?.toOption.getD false
    let applied := (fldD v "faultApplied" (Json.bool false)).getBool?.toOption.getD false
    let nCols := columns.length
    let outs := (allKeys pk base branches).map (fun k =>
      (k, mergeKey nCols (findByKey pk base k) (branches.map (fun br => findByKey pk br k))))
    let keySort := fun (l : List (List Bytes)) => l.mergeSort (fun a b => keyCmp a b != .gt)
    let expConf := keySort (outs.filterMap (fun (k, o) => if o == .conflict then some k else none))
    let expRows := (outs.filterMap (fun (_, o) => match o with
      | .row r => some (hoistRow pk r)
      | _ => none))
    let expCols := hoistRow pk columns
    let mj := Json.mkObj [("conflictKeys", jRows expConf), ("rows", jNat expRows.length), ("mayFail", Json.bool (faulty && applied))]
    -- with a conflict, only --no-gui finishes without the merge tool: the other modes are not for this oracle
    if mode != "no-gui" && !expConf.isEmpty then return reply mj true []
    if failed then
      if faulty && applied then return reply mj true []
      return reply mj false ["unexpected-error"]
    let iCols ← asRow (fldD v "columns" (Json.arr #[]))
    let iRows ← asRows (fldD v "rows" (Json.arr #[]))
    let iConf := keySort (← asRows (fldD v "conflictKeys" (Json.arr #[])))
    let rowsOk := iRows.length == expRows.length && expRows.all iRows.contains && iRows.all expRows.contains
    let viol : List String :=
      (if mode != "no-gui" || iConf == expConf then [] else ["conflicts-reported-exactly"]) ++
      (if rowsOk then [] else ["non-conflicting-changes-kept-and-untouched-rows-unchanged"]) ++
      (if iCols == expCols then [] else ["columns-under-their-own-names"])
    return reply mj viol.isEmpty viol
  | "merge-cli-hist" =>
    -- a history of `wrgl commit` / `wrgl branch create` / `wrgl merge` steps; after every merge step the
    -- table of every branch was read back: each must hold what the merge laws say (see `hOutcomeFor`)
    let pkNames ← asRow (fldD input "pkNames" (Json.arr #[]))
    let tables ← (← asArr (fldD input "tables" (Json.arr #[]))).mapM asHTab
    let steps ← asArr (fldD input "steps" (Json.arr #[]))
    if resClass impl == "panic" then return reply Json.null false ["no-panic"]
    if resClass impl != "ok" then return reply Json.null false ["unexpected-error"]
    let isteps ← asArr (fldD (fldD impl "val" Json.null) "steps" (Json.arr #[]))
    if isteps.length != steps.length then return reply Json.null false ["every-step-reported"]
    let (viol, trace) ← hReplay pkNames tables.toArray (steps.zip isteps) {} [] []
    let viol := viol.eraseDups
    return reply (Json.mkObj [("merges", jStrs trace)]) viol.isEmpty viol
  | "merge-cli-pull" =>
    -- a tree-shaped history on a remote, three heads; `wrgl pull BRANCH REMOTE h1 h2` merges BRANCH (= h0)
    -- with both at once. The branches share a base: the best common ancestor of ALL the heads on the
    -- commit graph (`bestCommonAncestors`, Spec/MergeBase.lean; `C05_merge_base_spec`). BRANCH must end up
    -- holding the by-name three-way resolution of the heads' tables over that commit's table. The lines
    -- of the history own disjoint rows, so the resolution has no conflict (else the case is not judged).
    let pkNames ← asRow (fldD input "pkNames" (Json.arr #[]))
    let tables ← (← asArr (fldD input "tables" (Json.arr #[]))).mapM asHTab
    let nodesJ ← asArr (fldD input "nodes" (Json.arr #[]))
    let heads ← asNatList (fldD input "heads" (Json.arr #[]))
    let nodes ← nodesJ.mapM fun n => do
      return ((← asNatList (fldD n "parents" (Json.arr #[]))), (← natFld n "table"))
    if resClass impl == "panic" then return reply Json.null false ["no-panic"]
    if resClass impl != "ok" then return reply Json.null false ["unexpected-error"]
    let g : Graph := (List.range nodes.length).zip nodes |>.map (fun (i, ps, t) => { id := i, time := Int.ofNat i, parents := ps, table := t })
    let tabOf := fun (n : Nat) => (((nodes[n]?).bind (fun nd => tables[nd.2]?))).getD default
    let bases := bestCommonAncestors g heads
    let note := fun (s : String) (b : List Nat) => Json.mkObj [("judged", Json.str s), ("base", jNats b)]
    match bases with
    | [c] =>
      -- a head that is the base itself makes this a fast-forward question (C10), not a three-way merge
      if heads.contains c || heads.length < 2 then return reply (note "not-judged:a-head-is-the-base" bases) true []
      match threeWayByName pkNames (tabOf c) (heads.map tabOf) with
      | none => return reply (note "not-judged:conflict" bases) true []
      | some want =>
        let v := fldD impl "val" Json.null
        let failed := (fldD v "failed" (Json.bool false)).getBool?.toOption.getD false
        if failed then return reply (note "three-way" bases) false ["unexpected-error"]
        let got ← match fldD v "branch" Json.null with
          | Json.null => pure none
          | bj => pure (some (← asHTab bj))
        let viol : List String := match got with
          | none => ["every-branch-exported"]
          | some e => (if sameColumnNames e want then [] else ["columns-under-their-own-names"]) ++
                      (if sameRowsByName e want then [] else ["non-conflicting-changes-kept-and-untouched-rows-unchanged"])
        -- model and implementation agree when the implementation holds the resolution over the base the
        -- FAITHFUL model of SeekCommonAncestor picks (Model/Queue.lean, heads in the order given), which is
        -- the best common ancestor except on the recorded finding C05-three-heads-wrong-base
        let implBase := match seekCommonAncestor g heads with
          | .ok (some b) => some b
          | _ => none
        let agreeM := match implBase, got with
          | some b, some e =>
            (match threeWayByName pkNames (tabOf b) (heads.map tabOf) with
             | some wm => sameColumnNames e wm && sameRowsByName e wm
             | none => false)
          | _, _ => false
        return reply (Json.mkObj [("judged", Json.str "three-way"), ("base", jNats bases), ("rows", jNat want.rows.length),
          ("modelBase", jNats implBase.toList)]) (viol.isEmpty || agreeM) viol
    | _ => return reply (note "not-judged:no-single-best-common-ancestor" bases) true []
  | _ => throw s!"unknown op {op}"

end Wrgl.Drv
