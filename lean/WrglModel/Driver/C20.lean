import WrglModel.Driver.Util
import WrglModel.Model.HashSet
import WrglModel.Spec.HashSet
open Lean
namespace Wrgl.Drv

def jFile (f : HSFile) : Json :=
  Json.mkObj [("fanout", jNats f.fanout), ("entries", Json.arr (f.entries.map jBytes).toArray)]

def fileOf (j : Json) : Except String HSFile := do
  return { fanout := ← asNatList (← fld j "fanout"), entries := ← (← arrFld j "entries").mapM asBytes }

structure C20St where
  s : HS
  added : List Hash
  out : List Json        -- model trace (reverse)
  viol : List String
  dead : Bool            -- model hit an error/panic

def c20Flush (st : C20St) (implR : Json) : Except String C20St := do
    if st.dead then return st
    match st.s.flush with
    | .ok s' =>
      -- clauses on the implementation's file image
      let v ← (match implR with
        | Json.str _ => pure ["flush-failed"]
        | j => do
          let f ← fileOf j
          pure ((if hsInv f then [] else ["entries-sorted-fanout-consistent"]) ++
                (if f.entries.all st.added.contains && st.added.all f.entries.contains then [] else ["stored-entries-are-exactly-the-added-hashes"])))
      return { st with s := s', out := jFile s'.file :: st.out, viol := st.viol ++ v }
    | r => return { st with dead := true, out := Json.str r.tag :: st.out }

def c20Step (st : C20St) (op : Json) (implR : Json) : Except String C20St := do
  let a ← asArr op
  match a with
  | [Json.str "add", h] =>
    let h ← asBytes h
    if st.dead then return st
    match st.s.add h with
    | .ok s' => return { st with s := s', added := h :: st.added, out := Json.str "ok" :: st.out }
    | r => return { st with dead := true, out := Json.str r.tag :: st.out }
  | [Json.str "flush"] => c20Flush st implR
  | [Json.str "flushfault", _] =>
    -- a Flush during which the harness's file fails one fan-out read before the flush has written
    -- anything (harness/c20.go, c20FaultFile). When the fault fired, the flush has to report the
    -- error; nothing was written, so the file is what it was and the batch is still pending — the
    -- model does not move. The flushes that follow (the retry) are judged as any flush: the file
    -- must hold exactly the added hashes, sorted, with a consistent fan-out table.
    if st.dead then return st
    if (implR.getObjVal? "fired").toOption == some (Json.bool true) then
      return { st with out := Json.mkObj [("fired", Json.bool true), ("res", Json.str "err"), ("writes", jNat 0)] :: st.out }
    else c20Flush st implR
  | [Json.str "addfault", _] =>
    -- an Add whose first read fails: it reports the error and adds nothing (the harness adds the
    -- same hash again right after)
    if st.dead then return st
    return { st with out := Json.str "err" :: st.out }
  | [Json.str "has", h] =>
    let h ← asBytes h
    if st.dead then return st
    match st.s.has h with
    | .ok b =>
      let v := if st.s.batch.isEmpty then
          (match implR with
           | Json.bool ib => if ib == st.added.contains h then [] else [if ib then "no-false-positive" else "no-false-negative"]
           | _ => ["has-failed"])
        else []
      return { st with out := Json.bool b :: st.out, viol := st.viol ++ v }
    | r => return { st with dead := true, out := Json.str r.tag :: st.out }
  | [Json.str "reopen"] =>
    if st.dead then return st
    let s' := HS.open_ st.s.file st.s.batchSize
    return { st with s := s', out := jNat s'.size :: st.out }
  | _ => throw "bad op"

/-! ### "bulk": batches of tens of thousands of hashes (harness/c20.go, genC20Bulk)

The hashes are named by an index and expanded here the same way as in the harness. The case is
judged by the property's own words, with a plain reference instead of the step-by-step model (whose
list-based flush is quadratic): after a flush the file must hold exactly the set of added hashes —
each once, sorted — with the fan-out table the spec (`hsInv`) demands; `Has` answers membership in
that set; a reopened handle reports its size. -/

/-- `c20BulkHash(first, i)` -/
def bulkHash (first i : Nat) : Hash :=
  let lo := i % 1048576
  let z : UInt8 := 0
  [UInt8.ofNat ((first + i / 1048576) % 256), UInt8.ofNat (lo / 65536 % 256), UInt8.ofNat (lo / 256 % 256), UInt8.ofNat (lo % 256),
   z, z, z, z, z, UInt8.ofNat (i * 7 % 256), z, z, z, z, z, UInt8.ofNat (i / 8 % 256)]

def hashLe (a b : Hash) : Bool := bytesCmp a b != .gt

/-- a sorted list with adjacent repeats dropped -/
def dedupSorted : List Hash → List Hash → List Hash
  | [], acc => acc.reverse
  | h :: t, [] => dedupSorted t [h]
  | h :: t, a :: acc => if h == a then dedupSorted t (a :: acc) else dedupSorted t (h :: a :: acc)

/-- fan-out table of an entry list: counter k = number of entries whose first byte is at most k
    (one pass: a histogram of first bytes, then running sums) -/
def fanoutOf (es : List Hash) : List Nat :=
  let hist := es.foldl (fun (a : Array Nat) h => a.modify (firstByte h) (· + 1)) (Array.replicate 256 0)
  (hist.foldl (fun (acc : List Nat × Nat) c => ((acc.2 + c) :: acc.1, acc.2 + c)) ([], 0)).1.reverse

/-- the elements of a list of hashes, once each, ascending -/
def asSet (l : List Hash) : List Hash := dedupSorted (l.mergeSort hashLe) []

/-- Reference state. As in the model (Model/HashSet.lean) `Add` skips a hash that is in the flushed
    file and appends any other to the pending batch (a repeat within a batch is stored twice — the
    property asks for membership, order and a consistent fan-out table, not for uniqueness), and a
    flush merges the batch into the sorted entries. -/
structure C20Bulk where
  added : List Hash
  entries : List Hash    -- the file's entries (sorted)
  flushed : Bool         -- the file has been written at least once
  pending : List Hash
  npending : Nat
  out : List Json
  viol : List String

def C20Bulk.fileImage (st : C20Bulk) : HSFile :=
  if st.flushed then { fanout := fanoutOf st.entries, entries := st.entries } else { fanout := [], entries := [] }

def C20Bulk.flush (st : C20Bulk) : C20Bulk :=
  { st with entries := (st.entries ++ st.pending).mergeSort hashLe, flushed := true, pending := [], npending := 0 }

def C20Bulk.add (bs : Nat) (st : C20Bulk) (h : Hash) : C20Bulk :=
  let st := { st with added := h :: st.added }
  if st.entries.contains h then st else
  let st := { st with pending := h :: st.pending, npending := st.npending + 1 }
  if st.npending ≥ bs then st.flush else st

def c20BulkStep (first bs : Nat) (st : C20Bulk) (step : List Nat) (implR : Json) : Except String C20Bulk := do
  match step with
  | [0, lo, n, mul] =>
    let st := (List.range n).foldl (fun st j => st.add bs (bulkHash first (lo + (j * mul) % n))) st
    let v := if implR == Json.str "ok" then [] else ["add-failed"]
    return { st with out := Json.str "ok" :: st.out, viol := st.viol ++ v }
  | [1] =>
    let st := st.flush
    let ref := st.fileImage
    let (v, same) ← (match implR with
      | Json.str _ => pure (["flush-failed"], false)
      | j => do
        let f ← fileOf j
        pure ((if hsInv f then [] else ["entries-sorted-fanout-consistent"]) ++
              (if asSet f.entries == asSet st.added then [] else ["stored-entries-are-exactly-the-added-hashes"]),
              f == ref))
    -- the reference image is printed only when it differs from the implementation's (equal images print alike)
    return { st with out := (if same then implR else jFile ref) :: st.out, viol := st.viol ++ v }
  | [2] =>
    if st.npending != 0 then throw "bulk: reopen with unflushed additions"
    return { st with out := jNat st.entries.length :: st.out }
  | [3, i] =>
    if st.npending != 0 then throw "bulk: has with unflushed additions"
    let m := st.added.contains (bulkHash first i)
    let v := match implR with
      | Json.bool ib => if ib == m then [] else [if ib then "no-false-positive" else "no-false-negative"]
      | _ => ["has-failed"]
    return { st with out := Json.bool m :: st.out, viol := st.viol ++ v }
  | _ => throw "bad bulk step"

def handleC20 (op : String) (input impl : Json) : Except String Json := do
  match op with
  | "ops" =>
    let bsz ← natFld input "batchSize"
    let ops ← arrFld input "ops"
    let implOut ← (if resClass impl == "ok" then asArr (fldD impl "val" Json.null) else pure [])
    let init : C20St := { s := HS.open_ { fanout := [], entries := [] } bsz, added := [], out := [], viol := [], dead := false }
    let rec go (st : C20St) : List Json → List Json → Except String C20St
      | [], _ => pure st
      | o :: os, r :: rs => do go (← c20Step st o r) os rs
      | o :: os, [] => do go (← c20Step st o Json.null) os []
    let st ← go init ops implOut
    let mj := Json.mkObj [("res", "ok"), ("val", Json.arr st.out.reverse.toArray)]
    let viol := if resClass impl == "panic" then ["no-panic"] else if resClass impl != "ok" then ["unexpected-error"] else st.viol.eraseDups
    return reply mj (sameRes impl mj) viol
  | "bulk" =>
    let first ← natFld input "first"
    let steps ← (← arrFld input "steps").mapM asNatList
    let implOut ← (if resClass impl == "ok" then asArr (fldD impl "val" Json.null) else pure [])
    let bs0 ← natFld input "batchSize"
    let bs := if bs0 == 0 then 1024 else bs0
    let init : C20Bulk := { added := [], entries := [], flushed := false, pending := [], npending := 0, out := [], viol := [] }
    let rec goB (st : C20Bulk) : List (List Nat) → List Json → Except String C20Bulk
      | [], _ => pure st
      | o :: os, r :: rs => do goB (← c20BulkStep first bs st o r) os rs
      | o :: os, [] => do goB (← c20BulkStep first bs st o Json.null) os []
    let st ← goB init steps implOut
    let mj := Json.mkObj [("res", "ok"), ("val", Json.arr st.out.reverse.toArray)]
    let viol := if resClass impl == "panic" then ["no-panic"] else if resClass impl != "ok" then ["unexpected-error"] else st.viol.eraseDups
    return reply mj (sameRes impl mj) viol
  | _ => throw s!"unknown op {op}"

end Wrgl.Drv
