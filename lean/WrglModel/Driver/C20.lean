import WrglModel.Driver.Util
import WrglModel.Model.HashSet
import WrglModel.Spec.HashSet
open Lean
namespace Wrgl.Drv

def jFile (f : HSFile) : Json :=
  Json.mkObj [("fanout", jNats f.fanout), ("entries", Json.arr (f.entries.map jBytes).toArray)]

def fileOf (j : Json) : Except String HSFile := do
  return { fanout := ← asNatList (← fld j "fanout"), entries := ← (← arrFld j "entries").mapM asBytes }

structure C20St where
  s : HS
  added : List Hash
  out : List Json        -- model trace (reverse)
  viol : List String
  dead : Bool            -- model hit an error/panic

def c20Step (st : C20St) (op : Json) (implR : Json) : Except String C20St := do
  let a ← asArr op
  match a with
  | [Json.str "add", h] =>
    let h ← asBytes h
    if st.dead then return st
    match st.s.add h with
    | .ok s' => return { st with s := s', added := h :: st.added, out := Json.str "ok" :: st.out }
    | r => return { st with dead := true, out := Json.str r.tag :: st.out }
  | [Json.str "flush"] =>
    if st.dead then return st
    match st.s.flush with
    | .ok s' =>
      -- clauses on the implementation's file image
      let v ← (match implR with
        | Json.str _ => pure ["flush-failed"]
        | j => do
          let f ← fileOf j
          pure ((if hsInv f then [] else ["entries-sorted-fanout-consistent"]) ++
                (if f.entries.all st.added.contains && st.added.all f.entries.contains then [] else ["stored-entries-are-exactly-the-added-hashes"])))
      return { st with s := s', out := jFile s'.file :: st.out, viol := st.viol ++ v }
    | r => return { st with dead := true, out := Json.str r.tag :: st.out }
  | [Json.str "has", h] =>
    let h ← asBytes h
    if st.dead then return st
    match st.s.has h with
    | .ok b =>
      let v := if st.s.batch.isEmpty then
          (match implR with
           | Json.bool ib => if ib == st.added.contains h then [] else [if ib then "no-false-positive" else "no-false-negative"]
           | _ => ["has-failed"])
        else []
      return { st with out := Json.bool b :: st.out, viol := st.viol ++ v }
    | r => return { st with dead := true, out := Json.str r.tag :: st.out }
  | [Json.str "reopen"] =>
    if st.dead then return st
    let s' := HS.open_ st.s.file st.s.batchSize
    return { st with s := s', out := jNat s'.size :: st.out }
  | _ => throw "bad op"

def handleC20 (op : String) (input impl : Json) : Except String Json := do
  match op with
  | "ops" =>
    let bsz ← natFld input "batchSize"
    let ops ← arrFld input "ops"
    let implOut ← (if resClass impl == "ok" then asArr (fldD impl "val" Json.null) else pure [])
    let init : C20St := { s := HS.open_ { fanout := [], entries := [] } bsz, added := [], out := [], viol := [], dead := false }
    let rec go (st : C20St) : List Json → List Json → Except String C20St
      | [], _ => pure st
      | o :: os, r :: rs => do go (← c20Step st o r) os rs
      | o :: os, [] => do go (← c20Step st o Json.null) os []
    let st ← go init ops implOut
    let mj := Json.mkObj [("res", "ok"), ("val", Json.arr st.out.reverse.toArray)]
    let viol := if resClass impl == "panic" then ["no-panic"] else if resClass impl != "ok" then ["unexpected-error"] else st.viol.eraseDups
    return reply mj (sameRes impl mj) viol
  | _ => throw s!"unknown op {op}"

end Wrgl.Drv
