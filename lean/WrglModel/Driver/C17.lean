import WrglModel.Driver.C06
import WrglModel.Model.Chunked
import WrglModel.Model.ReadModes
open Lean
namespace Wrgl.Drv

def jPack (r : Nat × List (Nat × Bytes)) : Json :=
  Json.mkObj [("objects", Json.arr (r.2.map (fun o => Json.arr #[jNat o.1, jBytes o.2])).toArray), ("version", jNat r.1)]

/-- `FloatListDecoder.Read` on a buffer: a 32-bit count, then that many 8-byte values (kept as bytes) -/
def decodeF64s : Nat → Bytes → Res (List Bytes × Bytes)
  | 0, b => .ok ([], b)
  | n+1, b =>
    match takeN 8 b with
    | none => .err "eof-in-value"
    | some (v, rest) =>
      match decodeF64s n rest with
      | .ok (vs, r) => .ok (v :: vs, r)
      | .err e => .err e
      | .panic p => .panic p

def floatListRead (b : Bytes) : Res (List Bytes × Bytes) :=
  match takeN 4 b with
  | none => .err "eof"
  | some (cb, rest) => decodeF64s (beNat cb) rest

/-- a stream of rows read with one decoder until end of stream: each row with the bytes it occupied.
    Every row takes at least its 4-byte count, so `fuel = length + 1` is never exhausted. -/
def rowStreamRead : Nat → Bytes → Res (List (Row × Bytes))
  | 0, _ => .err "fuel"
  | fuel+1, b =>
    if b.isEmpty then .ok []
    else match strListRead b with
      | .ok (r, rest) =>
        match rowStreamRead fuel rest with
        | .ok rs => .ok ((r, b.take (b.length - rest.length)) :: rs)
        | .err e => .err e
        | .panic p => .panic p
      | .err e => .err e
      | .panic p => .panic p

/-- whole-buffer decoding by the Lean models; `none` when the kind is not modelled. The constructor
    option of a decoder (`-reuse`) is not a parameter of the model: the decoded value may not depend on it. -/
def modelDecode (kind : String) (b : Bytes) : Option (Res Json) :=
  let kind := match kind with
    | "strlist-reuse" => "strlist"
    | "strlist-bytes-reuse" => "strlist-bytes"
    | "uintlist-reuse" => "uintlist"
    | "floatlist-reuse" => "floatlist"
    | "rowstream-reuse" => "rowstream"
    | "rowstream-bytes-reuse" => "rowstream-bytes"
    | k => k
  match kind with
  | "strlist-bytes" => some (match strListRead b with
      | .ok (_, rest) => .ok (jBytes (b.take (b.length - rest.length)))
      | .err e => .err e
      | .panic p => .panic p)
  | "floatlist" => some (match floatListRead b with
      | .ok (l, _) => .ok (Json.arr (l.map jBytes).toArray)
      | .err e => .err e
      | .panic p => .panic p)
  | "rowstream" => some (match rowStreamRead (b.length + 1) b with
      | .ok rs => .ok (jRows (rs.map (·.1)))
      | .err e => .err e
      | .panic p => .panic p)
  | "rowstream-bytes" => some (match rowStreamRead (b.length + 1) b with
      | .ok rs => .ok (Json.arr (rs.map (fun x => jBytes x.2)).toArray)
      | .err e => .err e
      | .panic p => .panic p)
  | "packfile" => some (match packfileFlat b with
      | .ok r => .ok (jPack r)
      | .err e => .err e
      | .panic p => .panic p)
  | "strlist" => some (match strListRead b with
      | .ok (r, _) => .ok (jRow r)
      | .err e => .err e
      | .panic p => .panic p)
  | "block" => some (match blockDecode b with
      | .ok (rs, _) => .ok (jRows rs)
      | .err e => .err e
      | .panic p => .panic p)
  | "uintlist" => some (match uintListRead b with
      | .ok (l, _) => .ok (jNats l)
      | .err e => .err e
      | .panic p => .panic p)
  | "table" => some (match tableRead b with
      | .ok t => .ok (jTableObj t)
      | .err e => .err e
      | .panic p => .panic p)
  | "commit" => some (match commitRead b with
      | .ok c => (match readTime c.time with
        | .ok t => .ok (jCommitRead c t)
        | .err e => .err e
        | .panic p => .panic p)
      | .err e => .err e
      | .panic p => .panic p)
  | _ => none

def handleC17 (op : String) (input impl : Json) : Except String Json := do
  match op with
  | "hostile" =>
    let kind ← strFld input "kind"
    let b ← asBytes (fldD input "bytes" (Json.str ""))
    let perByte ← natFld input "perByte"
    let slack ← natFld input "slack"
    let alloc := (fldD impl "alloc" (jNat 0)).getNat?.toOption.getD 0
    let hang := resClass impl == "err" && (fldD impl "kind" Json.null).compress == "\"hang\""
    let viol :=
      (if resClass impl == "panic" then ["never-panics"] else []) ++
      (if hang then ["never-loops-forever"] else []) ++
      (if alloc ≤ perByte * b.length + slack then [] else ["allocation-proportional-to-input"]) ++
      -- the store-level getter on the same bytes: never a panic, and an error exactly when the decoder errs
      (match (fldD impl "getter" Json.null).getStr?.toOption with
       | some "panic" => ["never-panics"]
       | some g => if (g == "ok") == (resClass impl == "ok") || resClass impl == "panic" then [] else ["getter-agrees-with-decoder"]
       | none => [])
    match modelDecode kind b with
    | some m =>
      let mj := jRes id m
      return reply mj (sameRes impl mj) viol
    | none => return reply Json.null (resClass impl != "panic") viol
  | "receive" =>
    let b ← asBytes (fldD input "bytes" (Json.str ""))
    let perByte ← natFld input "perByte"
    let slack ← natFld input "slack"
    let alloc := (fldD impl "alloc" (jNat 0)).getNat?.toOption.getD 0
    let dangling := (fldD impl "dangling" (jNat 0)).getNat?.toOption.getD 0
    let viol :=
      (if resClass impl == "panic" then ["never-panics"] else []) ++
      (if alloc ≤ perByte * b.length + slack then [] else ["allocation-proportional-to-input"]) ++
      (if dangling == 0 then [] else ["nothing-rejected-left-referenced"]) ++
      (if (fldD impl "invalidStored" (jNat 0)).getNat?.toOption.getD 0 == 0 then [] else ["nothing-rejected-left-stored"])
    return reply Json.null (resClass impl != "panic") viol
  | _ => throw s!"unknown op {op}"

def chunkedOf (b : Bytes) (sizes : List Nat) (ewl : Bool) : Chunked :=
  let rec cut : List Nat → Bytes → List Bytes
    | [], r => if r.isEmpty then [] else [r]
    | s :: ss, r => if r.isEmpty then [] else r.take s :: cut ss (r.drop s)
  { chunks := cut sizes b, eofWithLast := ewl }

def handleC18 (op : String) (input impl : Json) : Except String Json := do
  match op with
  | "chunk" =>
    let kind ← strFld input "kind"
    let b ← asBytes (fldD input "bytes" (Json.str ""))
    let chunkings ← (← asArr (fldD input "chunkings" (Json.arr #[]))).mapM asNatList
    let ewls ← (← asArr (fldD input "eofWithLast" (Json.arr #[]))).mapM asBool
    if resClass impl != "ok" then
      return reply Json.null false [if resClass impl == "panic" then "never-panics" else "unexpected-error"]
    let v := fldD impl "val" Json.null
    let whole := (fldD v "whole" Json.null).compress
    let cs ← asArr (fldD v "chunked" (Json.arr #[]))
    let viol :=
      (if whole == "\"err\"" then ["valid-stream-decodes"] else []) ++
      (if (fldD v "onebyte" Json.null).compress == whole then [] else ["same-under-one-byte-reads"]) ++
      (if (fldD v "half" Json.null).compress == whole then [] else ["same-under-half-reads"]) ++
      (if (fldD v "dataerr" Json.null).compress == whole then [] else ["same-when-data-arrives-with-eof"]) ++
      (if cs.all (fun c => c.compress == whole) then [] else ["same-under-arbitrary-chunking"])
    -- model: whole-buffer decode for the modelled kinds; for packfiles also every chunking with the extracted read modes
    let canonM (m : Res Json) : String := match m with
      | .ok j => j.compress
      | _ => "\"err\""
    let agreeWhole := match modelDecode kind b with
      | some m => canonM m == whole
      | none => true
    let agreeChunks :=
      if kind == "packfile" then
        ((chunkings.zip ewls).zip cs).all (fun ((sz, e), c) =>
          let m := packfileC Facts.readMode (chunkedOf b sz e)
          canonM (match m with
            | .ok r => .ok (jPack r)
            | .err x => .err x
            | .panic p => .panic p) == c.compress)
      else true
    return reply (Json.str whole) (agreeWhole && agreeChunks) viol
  | _ => throw s!"unknown op {op}"

end Wrgl.Drv
