import WrglModel.Driver.C06
import WrglModel.Model.Chunked
import WrglModel.Model.ReadModes
open Lean
namespace Wrgl.Drv

def jPack (r : Nat × List (Nat × Bytes)) : Json :=
  Json.mkObj [("objects", Json.arr (r.2.map (fun o => Json.arr #[jNat o.1, jBytes o.2])).toArray), ("version", jNat r.1)]

/-- whole-buffer decoding by the Lean models; `none` when the kind is not modelled -/
def modelDecode (kind : String) (b : Bytes) : Option (Res Json) :=
  match kind with
  | "packfile" => some (match packfileFlat b with
      | .ok r => .ok (jPack r)
      | .err e => .err e
      | .panic p => .panic p)
  | "strlist" => some (match strListRead b with
      | .ok (r, _) => .ok (jRow r)
      | .err e => .err e
      | .panic p => .panic p)
  | "block" => some (match blockDecode b with
      | .ok (rs, _) => .ok (jRows rs)
      | .err e => .err e
      | .panic p => .panic p)
  | "uintlist" => some (match uintListRead b with
      | .ok (l, _) => .ok (jNats l)
      | .err e => .err e
      | .panic p => .panic p)
  | "table" => some (match tableRead b with
      | .ok t => .ok (jTableObj t)
      | .err e => .err e
      | .panic p => .panic p)
  | "commit" => some (match commitRead b with
      | .ok c => (match readTime c.time with
        | .ok t => .ok (jCommitRead c t)
        | .err e => .err e
        | .panic p => .panic p)
      | .err e => .err e
      | .panic p => .panic p)
  | _ => none

def handleC17 (op : String) (input impl : Json) : Except String Json := do
  match op with
  | "hostile" =>
    let kind ← strFld input "kind"
    let b ← asBytes (fldD input "bytes" (Json.str ""))
    let perByte ← natFld input "perByte"
    let slack ← natFld input "slack"
    let alloc := (fldD impl "alloc" (jNat 0)).getNat?.toOption.getD 0
    let hang := resClass impl == "err" && (fldD impl "kind" Json.null).compress == "\"hang\""
    let viol :=
      (if resClass impl == "panic" then ["never-panics"] else []) ++
      (if hang then ["never-loops-forever"] else []) ++
      (if alloc ≤ perByte * b.length + slack then [] else ["allocation-proportional-to-input"]) ++
      -- the store-level getter on the same bytes: never a panic, and an error exactly when the decoder errs
      (match (fldD impl "getter" Json.null).getStr?.toOption with
       | some "panic" => ["never-panics"]
       | some g => if (g == "ok") == (resClass impl == "ok") || resClass impl == "panic" then [] else ["getter-agrees-with-decoder"]
       | none => [])
    match modelDecode kind b with
    | some m =>
      let mj := jRes id m
      return reply mj (sameRes impl mj) viol
    | none => return reply Json.null (resClass impl != "panic") viol
  | "receive" =>
    let b ← asBytes (fldD input "bytes" (Json.str ""))
    let perByte ← natFld input "perByte"
    let slack ← natFld input "slack"
    let alloc := (fldD impl "alloc" (jNat 0)).getNat?.toOption.getD 0
    let dangling := (fldD impl "dangling" (jNat 0)).getNat?.toOption.getD 0
    let viol :=
      (if resClass impl == "panic" then ["never-panics"] else []) ++
      (if alloc ≤ perByte * b.length + slack then [] else ["allocation-proportional-to-input"]) ++
      (if dangling == 0 then [] else ["nothing-rejected-left-referenced"]) ++
      (if (fldD impl "invalidStored" (jNat 0)).getNat?.toOption.getD 0 == 0 then [] else ["nothing-rejected-left-stored"])
    return reply Json.null (resClass impl != "panic") viol
  | _ => throw s!"unknown op {op}"

def chunkedOf (b : Bytes) (sizes : List Nat) (ewl : Bool) : Chunked :=
  let rec cut : List Nat → Bytes → List Bytes
    | [], r => if r.isEmpty then [] else [r]
    | s :: ss, r => if r.isEmpty then [] else r.take s :: cut ss (r.drop s)
  { chunks := cut sizes b, eofWithLast := ewl }

def handleC18 (op : String) (input impl : Json) : Except String Json := do
  match op with
  | "chunk" =>
    let kind ← strFld input "kind"
    let b ← asBytes (fldD input "bytes" (Json.str ""))
    let chunkings ← (← asArr (fldD input "chunkings" (Json.arr #[]))).mapM asNatList
    let ewls ← (← asArr (fldD input "eofWithLast" (Json.arr #[]))).mapM asBool
    if resClass impl != "ok" then
      return reply Json.null false [if resClass impl == "panic" then "never-panics" else "unexpected-error"]
    let v := fldD impl "val" Json.null
    let whole := (fldD v "whole" Json.null).compress
    let cs ← asArr (fldD v "chunked" (Json.arr #[]))
    let viol :=
      (if whole == "\"err\"" then ["valid-stream-decodes"] else []) ++
      (if (fldD v "onebyte" Json.null).compress == whole then [] else ["same-under-one-byte-reads"]) ++
      (if (fldD v "half" Json.null).compress == whole then [] else ["same-under-half-reads"]) ++
      (if (fldD v "dataerr" Json.null).compress == whole then [] else ["same-when-data-arrives-with-eof"]) ++
      (if cs.all (fun c => c.compress == whole) then [] else ["same-under-arbitrary-chunking"])
    -- model: whole-buffer decode for the modelled kinds; for packfiles also every chunking with the extracted read modes
    let canonM (m : Res Json) : String := match m with
      | .ok j => j.compress
      | _ => "\"err\""
    let agreeWhole := match modelDecode kind b with
      | some m => canonM m == whole
      | none => true
    let agreeChunks :=
      if kind == "packfile" then
        ((chunkings.zip ewls).zip cs).all (fun ((sz, e), c) =>
          let m := packfileC Facts.readMode (chunkedOf b sz e)
          canonM (match m with
            | .ok r => .ok (jPack r)
            | .err x => .err x
            | .panic p => .panic p) == c.compress)
      else true
    return reply (Json.str whole) (agreeWhole && agreeChunks) viol
  | _ => throw s!"unknown op {op}"

end Wrgl.Drv
