import WrglModel.Driver.Tables
import WrglModel.Model.Sorter
import WrglModel.Model.Encoding
import WrglModel.Spec.Sorter
import WrglModel.Spec.TableInv
import WrglModel.Model.Producers
import WrglModel.Model.Resolver
import WrglModel.Gen.Facts
open Lean
namespace Wrgl.Drv

def jStored (t : StoredTable) : Json :=
  Json.mkObj [("columns", jRow t.columns), ("pk", jNats t.pk), ("rowsCount", jNat t.rowsCount),
              ("blocks", Json.arr (t.blocks.map jRows).toArray), ("tblIdx", jRows t.tblIdx)]

def storedOfDump (t : TableD) : StoredTable :=
  { columns := t.columns, pk := t.pk, rowsCount := t.rowsCount, blocks := t.blocks.map (·.rows), tblIdx := t.tblIdx }

structure IngestIn where
  columns : Row
  pk : List Nat
  rows : List Row
  runSize : Nat

def ingestInOf (input : Json) : Except String IngestIn := do
  return { columns := ← asRow (fldD input "columns" (Json.arr #[])), pk := ← asNatList (fldD input "pk" (Json.arr #[])),
           rows := ← asRows (fldD input "rows" (Json.arr #[])), runSize := ← natFld input "runSize" }

def overLimit (rows : List Row) : Bool :=
  match Facts.addRowMaxCell with
  | some m => rows.any (fun r => r.any (fun c => decide (c.length > m)))
  | none => false

/-- rows cut into blocks of `bs` (an exported CSV seen as a block list for the shared verdict) -/
def cutRows (bs : Nat) : Nat → List Row → List (List Row)
  | 0, _ => []
  | f+1, l => if l.isEmpty then [] else (l.take bs) :: cutRows bs f (l.drop bs)

/-- the logical table in force at one step of a commit history (op "export-history", "cli-ids") -/
structure HistT where
  columns : Row
  pk : List Nat
  rows : List Row

def histTablesOf (input : Json) : Except String (List HistT) := do
  (← arrFld input "tables").mapM fun t => do
    return { columns := ← asRow (← fld t "columns"), pk := ← asNatList (← fld t "pk"), rows := ← asRows (← fld t "rows") }

/-- what the repository must hold for a logical table: the model's ingest (any run size gives the
    same table, `C01_config_independent`) -/
def histCanon (t : HistT) : Res StoredTable :=
  ingestTable (refSort t.pk) Facts.blockSize Facts.addRowMaxCell (2 ^ 40) t.columns t.pk t.rows

def handleC01Core (op : String) (input impl : Json) : Except String Json := do
  match op with
  | "ingest-big" =>
    -- size boundary: n distinct keys; the model's closed form (C01_unique_exact + C19_block_cut):
    -- n rows read back in key order, ceil(n / blockSize) blocks, one index per block
    let n ← natFld input "n"
    let bs := Facts.blockSize
    let mj := Json.mkObj [("rowsCount", jNat n), ("blocks", jNat ((n + bs - 1) / bs)), ("blockIndices", jNat ((n + bs - 1) / bs)),
                          ("readBack", jNat n), ("exactRowsInKeyOrder", Json.bool true)]
    if resClass impl == "panic" then return reply mj false ["no-panic"]
    if resClass impl != "ok" then return reply mj false ["unexpected-error"]
    let v := fldD impl "val" Json.null
    let g := fun (k : String) => (fldD v k (jNat 0)).getNat?.toOption.getD 0
    let viol :=
      (if g "rowsCount" == n && g "readBack" == n then [] else ["no-row-dropped-or-duplicated"]) ++
      (if g "blocks" == (n + bs - 1) / bs && g "blockIndices" == g "blocks" then [] else ["block-count"]) ++
      (if (fldD v "exactRowsInKeyOrder" (Json.bool false)).getBool?.toOption.getD false then [] else ["rows-identical-in-ascending-key-order"])
    return reply mj viol.isEmpty viol
  | "ingest" =>
    if (input.getObjVal? "columns").toOption.isNone then
      return reply (Json.mkObj [("res", "err")]) true []   -- the CSV could not be re-read: not a case
    let i ← ingestInOf input
    let bs := Facts.blockSize
    let m := ingestTable (refSort i.pk) bs Facts.addRowMaxCell i.runSize i.columns i.pk i.rows
    let mj := jRes jStored m
    let dup := hasDupKeysRows i.pk i.rows
    let big := i.rows.any (fun r => r.any (fun c => decide (c.length > 65535)))
    let (viol, agree) ←
      if resClass impl == "ok" then do
        let t ← tableOf (← fld (fldD impl "val" Json.null) "table")
        let st := storedOfDump t
        let v := (sortVerdict bs i.pk [] i.rows st.blocks) ++
          (if st.columns == i.columns then [] else ["columns-preserved"]) ++
          (if st.pk == i.pk then [] else ["pk-recorded"]) ++
          (if t.problems.isEmpty then [] else ["table-readable"]) ++
          (if big then ["overlimit-cell-refused"] else [])
        let ag := match m with
          | .ok ms => if dup then true else (jStored ms).compress == (jStored st).compress
          | _ => false
        pure (v, ag)
      else if resClass impl == "panic" then pure (["no-panic"], false)
      else pure ((if big then [] else ["unexpected-error"]), resClass mj == "err")
    return reply mj agree viol
  | "export" =>
    -- `wrgl commit` + `wrgl export`: the exported CSV holds the model's stored rows, in order
    if (input.getObjVal? "columns").toOption.isNone then
      return reply (Json.mkObj [("res", "err")]) true []
    let i ← ingestInOf input
    let bs := Facts.blockSize
    let m := ingestTable (refSort i.pk) bs Facts.addRowMaxCell (2 ^ 40) i.columns i.pk i.rows
    let mj := jRes jStored m
    let dup := hasDupKeysRows i.pk i.rows
    if resClass impl == "panic" then return reply mj false ["no-panic"]
    if resClass impl != "ok" then return reply mj (resClass mj == "err") (if resClass mj == "err" then [] else ["unexpected-error"])
    let v := fldD impl "val" Json.null
    let eCols ← asRow (fldD v "columns" (Json.arr #[]))
    let eRows ← asRows (fldD v "rows" (Json.arr #[]))
    -- the exported rows as one block list for the shared verdict
    let asBlocks := fun (rows : List Row) => cutRows bs (rows.length + 1) rows
    let viol := (sortVerdict bs i.pk [] i.rows (asBlocks eRows)) ++
      (if eCols == i.columns then [] else ["columns-preserved"])
    let agree := match m with
      | .ok ms => dup || ms.blocks.flatten == eRows
      | _ => false
    return reply mj agree viol
  | "export-history" =>
    -- a history of `wrgl commit main MSG` from the branch's configured file and key: after every
    -- step `wrgl export` holds the model's stored rows of the table in force at that step
    if resClass impl == "err" && (fldD impl "kind" Json.null).getStr?.toOption == some "not-a-history" then
      return reply (Json.mkObj [("res", "err")]) true []
    let ts ← histTablesOf input
    let ms := ts.map histCanon
    let mj := Json.arr (ms.map (jRes jStored)).toArray
    if resClass impl == "panic" then return reply mj false ["no-panic"]
    if resClass impl != "ok" then return reply mj false ["unexpected-error"]
    let obs ← arrFld (fldD impl "val" Json.null) "steps"
    if obs.length != ts.length then return reply mj false ["unexpected-error"]
    let bs := Facts.blockSize
    let mut viol : List String := []
    let mut agree := true
    for (t, m, o) in ts.zip (ms.zip obs) do
      let eCols ← asRow (fldD o "columns" (Json.arr #[]))
      let eRows ← asRows (fldD o "rows" (Json.arr #[]))
      let v := (sortVerdict bs t.pk [] t.rows (cutRows bs (eRows.length + 1) eRows)) ++
        (if eCols == t.columns then [] else ["columns-preserved"])
      viol := viol ++ v.filter (fun c => !viol.contains c)
      let dup := hasDupKeysRows t.pk t.rows
      agree := agree && (match m with
        | .ok st => dup || st.blocks.flatten == eRows
        | _ => false)
    return reply mj agree viol
  | _ => throw s!"unknown op {op}"
where
  hasDupKeysRows (pk : List Nat) (rows : List Row) : Bool := (distinctKeys pk rows).length != rows.length

/-- C01 ops; "ingest-torn-spill": an ingest during which one spill file was cut short in the middle
    of a field before the merge read it back (`cut`). The ingest fails, or what it stores satisfies
    every clause of "ingest" for the rows of the CSV: it never hands back a table that lacks rows.
    The model refuses (a torn record is never the end of a run); when no spill file was cut the case
    is an "ingest" case. -/
def handleC01 (op : String) (input impl : Json) : Except String Json := do
  match op with
  | "ingest-torn-spill" =>
    let cutOf := fun (j : Json) => (fldD j "cut" (Json.bool false)).getBool?.toOption.getD false
    if resClass impl == "err" && cutOf impl then
      if (fldD impl "kind" Json.null).getStr?.toOption == some "ingest" then
        return reply (Json.mkObj [("res", "err"), ("kind", "torn-spill-file-refused")]) true []
      else
        -- a table was handed back that cannot be read
        return reply (Json.mkObj [("res", "err"), ("kind", "torn-spill-file-refused")]) false ["table-readable"]
    let r ← handleC01Core "ingest" input impl
    if resClass impl == "ok" && cutOf (fldD impl "val" Json.null) then
      -- stored although a spill file was torn: acceptable only if complete (clauses above); the model refuses
      let viol := ((fldD r "violations" (Json.arr #[])).getArr?.toOption.getD #[]).toList.filterMap (fun j => j.getStr?.toOption)
      return reply (Json.mkObj [("res", "err"), ("kind", "torn-spill-file-refused")]) false (viol.map (fun s => "torn-spill:" ++ s))
    return r
  | _ => handleC01Core op input impl

def fullTableOf (t : TableD) (hashes : List (List (Bytes × Bytes))) : FullTable :=
  { columns := t.columns, pk := t.pk, rowsCount := t.rowsCount, blocks := t.blocks.map (·.rows), hashes := hashes,
    indices := t.blocks.filterMap (·.idx), tblIdx := t.tblIdx }

def hashesOf (j : Json) : Except String (List (List (Bytes × Bytes))) := do
  (← asArr j).mapM fun b => do
    (← asArr b).mapM fun h => do
      return (← asBytes (← fld h "pk"), ← asBytes (← fld h "row"))

def handleC03 (op : String) (input impl : Json) : Except String Json := do
  match op with
  | "inv-big" =>
    -- size boundary: recorded row count = rows present, one index per block, ceil(n / blockSize) blocks
    let n ← natFld input "n"
    let bs := Facts.blockSize
    let nb := (n + bs - 1) / bs
    let mj := Json.mkObj [("rowsCount", jNat n), ("blocks", jNat nb), ("blockIndices", jNat nb)]
    if resClass impl == "panic" then return reply mj false ["no-panic"]
    if resClass impl != "ok" then return reply mj false ["unexpected-error"]
    let v := fldD impl "val" Json.null
    let g := fun (k : String) => (fldD v k (jNat 0)).getNat?.toOption.getD 0
    let viol :=
      (if g "rowsCount" == n && g "readBack" == n then [] else ["rowscount-equals-rows-present"]) ++
      (if g "blocks" == nb then [] else ["block-sizes"]) ++
      (if g "blockIndices" == g "blocks" then [] else ["one-index-per-block"]) ++
      (if (fldD v "exactRowsInKeyOrder" (Json.bool false)).getBool?.toOption.getD false then [] else ["keys-strictly-ascending"])
    return reply mj viol.isEmpty viol
  | "inv" =>
    if (input.getObjVal? "columns").toOption.isNone then
      return reply (Json.mkObj [("res", "err")]) true []
    let i ← ingestInOf input
    let bs := Facts.blockSize
    let big := i.rows.any (fun r => r.any (fun c => decide (c.length > 65535)))
    if resClass impl == "ok" then
      let v := fldD impl "val" Json.null
      let t ← tableOf (← fld v "table")
      let hashes ← hashesOf (fldD v "hashes" (Json.arr #[]))
      let issues ← (← asArr (fldD v "issues" (Json.arr #[]))).mapM asStr
      let ft := fullTableOf t hashes
      let viol := tableInv bs ft ++ (if t.numIdx == t.blocks.length then [] else ["one-index-per-block"]) ++
        (if t.problems.isEmpty then [] else ["table-readable"]) ++
        (if issues.isEmpty then [] else ["self-diagnosis-clean"])
      -- model side: the model's table must satisfy the same invariant and coincide on rows/tblIdx
      let m := ingestTable (refSort i.pk) bs Facts.addRowMaxCell i.runSize i.columns i.pk i.rows
      let dup := (distinctKeys i.pk i.rows).length != i.rows.length
      -- the model of the repository's own diagnosis (Model/Producers.lean) must say what doctor said
      let diagAgree := (diagnose ft).isNone == issues.isEmpty || !t.problems.isEmpty || t.numIdx != t.blocks.length
      let agree := diagAgree && match m with
        | .ok ms => dup || (ms.blocks == ft.blocks && ms.tblIdx == ft.tblIdx && ms.rowsCount == ft.rowsCount)
        | _ => false
      return reply (jRes jStored m) agree viol
    else if resClass impl == "panic" then
      return reply Json.null false ["no-panic"]
    else
      return reply Json.null big (if big then [] else ["unexpected-error"])
  | "resolve-inv" =>
    -- doctor resolve over a history of commits (oldest first), each holding a sound table, one that
    -- needs a re-ingest or one whose key must be dropped; all issues repaired by ONE resolver. Every
    -- table of the history as it stands afterwards must satisfy the clauses every producer's tables
    -- satisfy (`tableInv`, one index per block, readable, clean self-diagnosis). Model: `resolveAll`
    -- (Model/Resolver.lean) from a new resolver over the damaged tables, in order.
    let cs ← arrFld input "commits"
    let bs := Facts.blockSize
    let ins ← cs.mapM fun c => do
      let res ← strFld c "resolution"
      return (res, ({ columns := ← asRow (← fld c "columns"), pk := ← asNatList (← fld c "pk"), rows := ← asRows (← fld c "rows"),
                      resolution := if res == "resetPK" then .resetPK else .reingest } : DamagedTable))
    let ds := (ins.filter (fun (r, _) => r != "none")).map (·.2)
    let m := resolveAll (fun pk => refSort pk) bs Facts.addRowMaxCell (2 ^ 40) ResolverSt.fresh ds
    let mj := jRes (fun ts => Json.arr (ts.map jStored).toArray) m
    if resClass impl == "panic" then return reply mj false ["no-panic"]
    if resClass impl != "ok" then
      if (fldD impl "kind" Json.null).getStr?.toOption == some "not-a-case" then return reply mj true []
      return reply mj false ["unexpected-error"]
    let obs ← arrFld (fldD impl "val" Json.null) "commits"
    if obs.length != ins.length then return reply mj false ["unexpected-error"]
    let mts := match m with
      | .ok ts => ts
      | _ => []
    let mut viol : List String := []
    let mut agree := m.isOk && mts.length == ds.length
    let mut k := 0
    for ((res, d), o) in ins.zip obs do
      let t ← tableOf (← fld o "table")
      let hashes ← hashesOf (fldD o "hashes" (Json.arr #[]))
      let issues ← (← asArr (fldD o "issues" (Json.arr #[]))).mapM asStr
      let before ← (← asArr (fldD o "diagBefore" (Json.arr #[]))).mapM asStr
      let ft := fullTableOf t hashes
      let v := tableInv bs ft ++ (if t.numIdx == t.blocks.length then [] else ["one-index-per-block"]) ++
        (if t.problems.isEmpty then [] else ["table-readable"]) ++
        (if issues.isEmpty then [] else ["self-diagnosis-clean"])
      viol := viol ++ v.filter (fun c => !viol.contains c)
      -- the diagnosis before the repair asked for the resolution the damage calls for
      let asked := match before with
        | [] => "none"
        | e :: _ => if e.startsWith "pk index greater than columns count" || e.startsWith "primary key column is empty" then "resetPK" else "reingest"
      agree := agree && asked == res && before.length ≤ 1
      if res == "none" then
        -- a sound table is left alone
        agree := agree && (← strFld o "oldSum") == (← strFld o "newSum")
      else
        match mts[k]? with
        | none => agree := false
        | some ms =>
          let dup := (distinctKeys ms.pk d.rows).length != d.rows.length
          agree := agree && ms.columns == ft.columns && ms.pk == ft.pk && ms.tblIdx.length == ft.tblIdx.length &&
            (dup || (ms.blocks == ft.blocks && ms.tblIdx == ft.tblIdx && ms.rowsCount == ft.rowsCount))
        k := k + 1
    return reply mj agree viol
  | _ => throw s!"unknown op {op}"

def handleC02 (op : String) (input impl : Json) : Except String Json := do
  match op with
  | "ids" =>
    if resClass impl != "ok" then
      return reply Json.null false [if resClass impl == "panic" then "no-panic" else "unexpected-error"]
    let v := fldD impl "val" Json.null
    let sums ← (← arrFld v "sums").mapM asStr
    let msums ← (← arrFld v "mutantSums").mapM asStr
    let t ← tableOf (← fld v "table")
    let raw ← asBytes (← fld v "tableBytes")
    let digest ← strFld v "digest"
    let base := sums.head?.getD ""
    let viol :=
      (if sums.all (· == base) then [] else ["same-content-same-id"]) ++
      (if msums.all (· != base) then [] else ["different-content-different-id"]) ++
      (if digest == base then [] else ["id-is-hash-of-table-bytes"])
    -- model: the table object's bytes from its logical content and the block sums of the run
    let tobj : TableObj := { columns := t.columns, pk := t.pk, rowsCount := t.rowsCount,
                             blocks := t.blocks.map (·.sum), blockIndices := t.blocks.map (·.idxSum) }
    let mb := tableBytes (Facts.strListEncodeMaxCell.getD (2^64)) tobj
    let agree := match mb with
      | .ok b => b == raw
      | _ => false
    return reply (jRes jBytes mb) agree viol
  | "ids-spill-write-fault" =>
    -- the same CSV ingested in memory (base), with spills (control) and with spills while no spill
    -- file can grow beyond a size limit, so that a write of every spill file fails (limited): an ingest
    -- gives the table the identifier of its content or fails; it never hands back another identifier
    if resClass impl != "ok" then
      return reply Json.null false [if resClass impl == "panic" then "no-panic" else "unexpected-error"]
    let v := fldD impl "val" Json.null
    let base ← strFld v "base"
    let control ← strFld v "control"
    let lim ← fld v "limited"
    let limViol :=
      if resClass lim == "ok" then
        (if (fldD (fldD lim "val" Json.null) "sum" Json.null).getStr?.toOption == some base then []
         else ["failed-spill-write:same-id-or-error"])
      else if resClass lim == "panic" then ["no-panic"]
      else if (fldD lim "kind" Json.null).getStr?.toOption == some "ingest" then []
      else ["unexpected-error"]
    let viol := (if control == base then [] else ["same-content-same-id"]) ++ limViol
    return reply (Json.mkObj [("limited", Json.str "error-or-base-id")]) viol.isEmpty viol
  | "cli-ids" =>
    -- the identifier as the commit command sees it, over a history of `wrgl commit main MSG` from the
    -- branch's configured file and key. Per step the harness reports what the command said, the head
    -- commit, its table id and key, and the id of the same logical table ingested directly elsewhere.
    if resClass impl == "err" && (fldD impl "kind" Json.null).getStr?.toOption == some "not-a-history" then
      return reply Json.null true []
    let ts ← histTablesOf input
    -- two steps hold the same logical table iff the model's stored tables are equal
    let canon := ts.map (fun t => (jRes jStored (histCanon t)).compress)
    -- a step whose command names its file (`wrgl commit main FILE MSG … --set-file --set-primary-key`) always
    -- makes a commit: that path compares nothing (the identifier clauses below still bind its table);
    -- "no change" is what a commit FROM THE BRANCH FILE says when the table is the one the branch holds
    let vias ← (← arrFld input "steps").mapM (fun st => do
      return (fldD st "via" (Json.str "config")).getStr?.toOption.getD "config")
    let explicit := vias.map (fun v => v == "setflags")
    let sameAsPrev := ((canon.zip (canon.drop 1)).zip (explicit.drop 1)).map (fun ((a, b), e) => a == b && !e)
    let mj := Json.arr ((ts.zip (false :: sameAsPrev)).map (fun (t, same) =>
      Json.mkObj [("out", if same then "nochange" else "committed"), ("pk", jNats t.pk)])).toArray
    if resClass impl == "panic" then return reply mj false ["no-panic"]
    if resClass impl != "ok" then return reply mj false ["unexpected-error"]
    let obs ← arrFld (fldD impl "val" Json.null) "steps"
    if obs.length != ts.length then return reply mj false ["unexpected-error"]
    let outs ← obs.mapM (fun o => strFld o "out")
    let heads ← obs.mapM (fun o => strFld o "head")
    let tbls ← obs.mapM (fun o => strFld o "table")
    let refs ← obs.mapM (fun o => strFld o "ref")
    let pks ← obs.mapM (fun o => do asNatList (← fld o "pk"))
    let idx := List.range ts.length
    let pairs := idx.flatMap (fun i => (idx.filter (· > i)).map (fun j => (i, j)))
    let nth := fun (l : List String) (i : Nat) => l[i]?.getD ""
    let sameOk := (tbls.zip refs).all (fun (a, b) => a == b) &&
      pairs.all (fun (i, j) => nth canon i != nth canon j || (nth tbls i == nth tbls j && nth refs i == nth refs j))
    let diffOk := pairs.all (fun (i, j) => nth canon i == nth canon j || (nth tbls i != nth tbls j && nth refs i != nth refs j))
    -- "no change" is said, and no commit made, exactly when the table is the one the branch already holds
    let headSame := (heads.zip (heads.drop 1)).map (fun (a, b) => a == b)
    let noChangeOk := outs.head? == some "committed" &&
      (sameAsPrev.zip ((outs.drop 1).zip headSame)).all (fun (same, o, hs) =>
        (o == (if same then "nochange" else "committed")) && hs == same)
    let viol :=
      (if sameOk then [] else ["same-content-same-id"]) ++
      (if diffOk then [] else ["different-content-different-id"]) ++
      (if noChangeOk then [] else ["no-change-detected"])
    let agree := (outs.zip (false :: sameAsPrev)).all (fun (o, same) => o == (if same then "nochange" else "committed")) &&
      (pks.zip ts).all (fun (p, t) => p == t.pk)
    return reply mj agree viol
  | _ => throw s!"unknown op {op}"

end Wrgl.Drv
