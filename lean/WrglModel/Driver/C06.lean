import WrglModel.Driver.Util
import WrglModel.Driver.Tables
import WrglModel.Model.BlockIndexCodec
import WrglModel.Spec.TableInv
import WrglModel.Model.Encoding
import WrglModel.Model.Time
import WrglModel.Model.ObjStore
import WrglModel.Model.Profile
import WrglModel.Gen.Facts
open Lean
namespace Wrgl.Drv

def maxCell : Nat := Facts.strListEncodeMaxCell.getD (2 ^ 64)

def jTableObj (t : TableObj) : Json :=
  Json.mkObj [("columns", jRow t.columns), ("pk", jNats t.pk), ("rowsCount", jNat t.rowsCount),
              ("blocks", Json.arr (t.blocks.map jBytes).toArray), ("blockIndices", Json.arr (t.blockIndices.map jBytes).toArray)]

def tableObjOf (j : Json) : Except String TableObj := do
  return { columns := ← asRow (← fld j "columns"), pk := ← asNatList (← fld j "pk"), rowsCount := ← natFld j "rowsCount",
           blocks := ← (← arrFld j "blocks").mapM asBytes, blockIndices := ← (← arrFld j "blockIndices").mapM asBytes }

structure CommitIn where
  obj : CommitObj
  time : Option (Int × Int)

def commitInOf (guard : Bool) (j : Json) : Except String (CommitIn × Res Bytes) := do
  let zero ← boolFld j "zero"
  let sec ← intFld j "sec"
  let zs ← intFld j "zoneSec"
  let t : Option (Int × Int) := if zero then none else some (sec, zs)
  let tb := writeTime guard t
  let timeBytes := match tb with
    | .ok b => b
    | _ => []
  let tbl ← asBytes (← fld j "table")
  let an ← asBytes (← fld j "authorName")
  let ae ← asBytes (← fld j "authorEmail")
  let msg ← asBytes (← fld j "message")
  let ps ← (← arrFld j "parents").mapM asBytes
  let obj : CommitObj := { table := tbl, authorName := an, authorEmail := ae, time := timeBytes, message := msg, parents := ps }
  let ci : CommitIn := { obj := obj, time := t }
  return (ci, tb)

def jCommitRead (c : CommitObj) (t : Option (Int × Int)) : Json :=
  Json.mkObj [("table", jBytes c.table), ("authorName", jBytes c.authorName), ("authorEmail", jBytes c.authorEmail),
              ("sec", jInt (t.map (·.1) |>.getD 0)), ("zoneSec", jInt (t.map (·.2) |>.getD 0)), ("zero", Json.bool t.isNone),
              ("message", jBytes c.message), ("parents", Json.arr (c.parents.map jBytes).toArray)]

def prefixOf (kind : String) : Bytes :=
  strBytes (match kind with
    | "block" => "blk/"
    | "blockindex" => "blkidx/"
    | "table" => "tbl/"
    | "commit" => "com/"
    | _ => "?")

def implVal (impl : Json) : Json := fldD impl "val" Json.null

def objKindOf (s : String) : Except String ObjKind :=
  match s with
  | "block" => .ok .block
  | "blockindex" => .ok .blockIndex
  | "table" => .ok .table
  | "tableindex" => .ok .tableIndex
  | "commit" => .ok .commit
  | "profile" => .ok .tableProfile
  | k => .error s!"unknown object kind {k}"

/-- one operation of a store history: the model operation and whether its content is a well-formed object;
    `commit` (transactional store only) makes the staged operations reach the database -/
structure HistOp where
  op : TxnOp
  valid : Bool
  content : Bytes

def histOpOf (j : Json) : Except String HistOp := do
  let o ← strFld j "op"
  if o == "commit" then return { op := .commit, valid := false, content := [] }
  let kind ← objKindOf (← strFld j "kind")
  let sum ← asBytes (fldD j "sum" (Json.str ""))
  let content ← asBytes (fldD j "content" (Json.str ""))
  let valid := (fldD j "valid" (Json.bool false)).getBool?.toOption.getD false
  match o with
  | "save" => return { op := .op (.save kind sum content), valid := valid, content := content }
  | "delete" => return { op := .op (.delete kind sum), valid := false, content := [] }
  | o => throw s!"unknown store op {o}"

def jOptBytes06 : Option Bytes → Json
  | some b => jBytes b
  | none => Json.null

def jStoreState (s : ObjStore) : Json :=
  let l := (s.map fun (k, v) => (bytesToHex k, bytesToHex v)).mergeSort (fun a b => decide (a.1 ≤ b.1))
  Json.arr (l.map fun (k, v) => Json.arr #[Json.str k, Json.str v]).toArray

/-- what the harness observes after a step, according to the model: `after` is what a read through the
    store (through the transaction, for the transactional store) sees, `base` what the database holds -/
def jStepExpect (H : Bytes → Bytes) (h : HistOp) (after base : ObjStore) : Json :=
  match h.op with
  | .commit =>
    Json.mkObj [("err", Json.bool false), ("sum", Json.null), ("exists", Json.bool false), ("stored", Json.null),
      ("typed", Json.null), ("committed", jStoreState base)]
  | .op o =>
    let got := after.get (o.key H)
    let isSave := match o with
      | .save .. => true
      | .delete .. => false
    Json.mkObj [("err", Json.bool false),
      ("sum", if isSave && o.kind.byContent then jBytes (H h.content) else Json.null),
      ("exists", Json.bool got.isSome),
      ("stored", jOptBytes06 got),
      ("typed", if isSave && h.valid then jOptBytes06 got else Json.null),
      ("committed", Json.null)]

/-! table profile values (op "profileobj"); floats travel as the hex of their 8 bytes -/

def optF64Of (j : Json) : Except String (Option Nat) :=
  if j.isNull then return none else do return some (beNat (← asBytes j))

def colProfileOf (j : Json) : Except String ColProfile := do
  let pj := fldD j "percentiles" Json.null
  let percentiles ← if pj.isNull then pure none else do
    let l ← (← asArr pj).mapM asBytes
    pure (some (l.map beNat))
  let tj := fldD j "topValues" Json.null
  let topValues ← if tj.isNull then pure none else do
    let l ← (← asArr tj).mapM fun v => do
      let value ← asBytes (← fld v "value")
      let count ← natFld v "count"
      pure (value, count)
    pure (some l)
  return { name := ← asBytes (← fld j "name"), naCount := ← natFld j "naCount",
           min := ← optF64Of (fldD j "min" Json.null), max := ← optF64Of (fldD j "max" Json.null),
           mean := ← optF64Of (fldD j "mean" Json.null), median := ← optF64Of (fldD j "median" Json.null),
           stdDeviation := ← optF64Of (fldD j "stdDeviation" Json.null), percentiles := percentiles,
           minStrLen := ← natFld j "minStrLen", maxStrLen := ← natFld j "maxStrLen", avgStrLen := ← natFld j "avgStrLen",
           topValues := topValues }

def profileObjOf (j : Json) : Except String ProfileObj := do
  return { version := ← natFld j "version", rowsCount := ← natFld j "rowsCount",
           columns := ← (← arrFld j "columns").mapM colProfileOf }

def handleC06 (op : String) (input impl : Json) : Except String Json := do
  match op with
  | "profileobj" =>
    -- a profile value written, read back, re-encoded, stored and fetched; the writer against Model/Profile.lean
    let pj ← fld input "profile"
    let p ← profileObjOf pj
    let m := profileBytes Facts.writeStringGuard p
    let mj := jRes (fun b => Json.mkObj [("bytes", jBytes b)]) m
    if resClass impl == "panic" then return reply mj false ["no-panic"]
    let v := implVal impl
    let nameFits := p.columns.all (fun c => decide (c.name.length ≤ 65535))
    let viol : List String :=
      if resClass impl == "ok" then
        let bytesJ := (fldD v "bytes" Json.null).compress
        -- a text that does not fit its 16-bit length prefix must have been refused (C06_profile_written_iff_texts_fit)
        (if p.textsFit then []
         else if !nameFits then ["profile-overlong-name-rejected-at-write"] else ["profile-overlong-top-value-rejected-at-write"]) ++
        (if p.textsFit then
          (if (fldD v "read" Json.null).compress == pj.compress then [] else ["profile-roundtrip"]) ++
          (if (fldD v "reencoded" Json.null).compress == bytesJ then [] else ["profile-reencode"]) ++
          (if (fldD v "stored" Json.null).compress == bytesJ && (fldD v "fromStore" Json.null).compress == pj.compress then []
           else ["profile-reads-back-from-the-store"]) ++
          (match m with
           | .ok b => if (fldD v "n" Json.null).compress == (jNat b.length).compress then [] else ["profile-write-returns-its-byte-count"]
           | _ => [])
         else [])
      else if p.textsFit then ["profile-that-fits-is-written"] else []
    let agree := match m with
      | .ok b => resClass impl == "ok" && (fldD v "bytes" Json.null).compress == (jBytes b).compress
      | .err _ => resClass impl == "err"
      | .panic _ => false
    return reply mj agree viol
  | "strlist" =>
    let row ← asRow (fldD input "row" (Json.arr #[]))
    let m : Res Json := match strListEncode maxCell row with
      | .ok b =>
        match strListRead b with
        | .ok (r, _) => .ok (Json.mkObj [("bytes", jBytes b), ("decode", jRow r), ("n", jNat b.length), ("read", jRow r)])
        | _ => .ok (Json.mkObj [("bytes", jBytes b), ("read", "err")])
      | .err e => .err e
      | .panic p => .panic p
    let mj := jRes id m
    let viol : List String :=
      if resClass impl == "ok" then
        let v := implVal impl
        (if (fldD v "read" Json.null).compress == (jRow row).compress then [] else ["strlist-roundtrip"]) ++
        (if (fldD v "decode" Json.null).compress == (jRow row).compress then [] else ["strlist-decode-roundtrip"])
      else []
    return reply mj (sameRes impl mj) viol
  | "block" =>
    let rows ← asRows (fldD input "rows" (Json.arr #[]))
    let m : Res Json := match blockEncode maxCell rows with
      | .ok b =>
        match blockDecode b with
        | .ok (rs, _) => .ok (Json.mkObj [("bytes", jBytes b), ("combined", jBytes b), ("read", jRows rs),
                                           ("valid", Json.bool (decide (1 ≤ rows.length ∧ rows.length ≤ Facts.blockSize)))])
        | _ => .ok (Json.mkObj [("bytes", jBytes b), ("read", "err")])
      | .err e => .err e
      | .panic p => .panic p
    let mj := jRes id m
    let viol : List String :=
      if resClass impl == "ok" then
        let v := implVal impl
        (if (fldD v "read" Json.null).compress == (jRows rows).compress then [] else ["block-roundtrip"]) ++
        (if (fldD v "valid" Json.null).compress == (Json.bool (decide (1 ≤ rows.length ∧ rows.length ≤ Facts.blockSize))).compress then [] else ["block-valid"])
      else []
    return reply mj (sameRes impl mj) viol
  | "table" =>
    let t ← tableObjOf (← fld input "table")
    let m : Res Json := match tableBytes maxCell t with
      | .ok b =>
        match tableRead b with
        | .ok t' => .ok (Json.mkObj [("bytes", jBytes b), ("read", jTableObj t'), ("reencoded", jBytes b)])
        | _ => .ok (Json.mkObj [("bytes", jBytes b), ("read", "err")])
      | .err e => .err e
      | .panic p => .panic p
    let mj := jRes id m
    let viol : List String :=
      if resClass impl == "ok" then
        let v := implVal impl
        (if (fldD v "read" Json.null).compress == (jTableObj t).compress then [] else ["table-roundtrip"]) ++
        (if (fldD v "reencoded" Json.null).compress == (fldD v "bytes" Json.null).compress then [] else ["table-reencode"])
      else []
    return reply mj (sameRes impl mj) viol
  | "commit" =>
    let (c, tb) ← commitInOf Facts.writeTimeGuard (← fld input "commit")
    let m : Res Json := match tb with
      | .err e => .err e
      | .panic p => .panic p
      | .ok _ =>
        match commitBytes Facts.writeStringGuard c.obj with
        | .ok b =>
          match commitRead b with
          | .ok c' =>
            match readTime c'.time with
            | .ok t' => .ok (Json.mkObj [("bytes", jBytes b), ("read", jCommitRead c' t'), ("reencoded", jBytes b)])
            | _ => .ok (Json.mkObj [("bytes", jBytes b), ("read", "err")])
          | _ => .ok (Json.mkObj [("bytes", jBytes b), ("read", "err")])
        | .err e => .err e
        | .panic p => .panic p
    let mj := jRes id m
    -- expected read-back: the written value, zone truncated to whole minutes (what ±hhmm can hold)
    let expT := c.time.map (fun (s, z) => (s, Int.tdiv z 60 * 60))
    let viol : List String :=
      if resClass impl == "ok" then
        let v := implVal impl
        let exact := (fldD v "read" Json.null).compress == (jCommitRead c.obj c.time).compress
        let minute := (fldD v "read" Json.null).compress == (jCommitRead c.obj expT).compress
        -- a zone offset of 25 h or more is written but refused when read (known finding)
        let over24 := match c.time with
          | some (_, z) => z.natAbs ≥ 25 * 3600
          | none => false
        let unreadable := (fldD v "read" Json.null).compress == "\"err\""
        (if exact then [] else if minute then ["commit-time-zone-seconds"]
         else if over24 && unreadable then ["commit-time-zone-over-24h"] else ["commit-roundtrip"]) ++
        (if (fldD v "reencoded" Json.null).compress == (fldD v "bytes" Json.null).compress || (over24 && unreadable) then [] else ["commit-reencode"])
      else []
    return reply mj (sameRes impl mj) viol
  | "hdr" =>
    let t ← natFld input "type"
    let u ← natFld input "u"
    let m : Res Json := match encodeHdr (bitLen u) t u with
      | .ok b =>
        match decodeHdr b with
        | .ok (t', u', _) => .ok (Json.mkObj [("bytes", jBytes b), ("read", Json.arr #[jNat t', jNat u'])])
        | _ => .ok (Json.mkObj [("bytes", jBytes b), ("read", "err")])
      | .err e => .err e
      | .panic p => .panic p
    let mj := jRes id m
    let viol : List String :=
      if resClass impl == "ok" then
        let v := implVal impl
        (if (fldD v "read" Json.null).compress == (Json.arr #[jNat t, jNat u]).compress then [] else ["hdr-roundtrip"])
      else if resClass impl == "panic" then ["hdr-no-panic"] else ["hdr-error"]
    -- with an over-estimating bit count the bytes may legitimately differ; compare bytes only when the code's count is exact
    let agree := if Facts.hdrBitsExact then sameRes impl mj
      else resClass impl == resClass mj
    return reply mj agree viol
  | "blockindex" =>
    -- the index IndexBlock builds, written, read back, written again, stored and fetched
    if resClass impl == "panic" then return reply Json.null false ["no-panic"]
    if resClass impl != "ok" then return reply Json.null false ["unexpected-error"]
    let v := fldD impl "val" Json.null
    let bs ← asBytes (fldD v "bytes" (Json.str ""))
    let re ← asBytes (fldD v "reencoded" (Json.str ""))
    let fs ← asBytes (fldD v "fromStore" (Json.str ""))
    let keyIsHash := (fldD v "keyIsHash" (Json.bool false)).getBool?.toOption.getD false
    let idx ← bidxOf (fldD v "idx" Json.null)
    -- model: the codec of Model/BlockIndexCodec.lean on the same bytes
    let m := decodeBIdx bs
    let agree := match m with
      | .ok (b, tail) => tail.isEmpty && b == idx && encodeBIdx b == bs
      | _ => false
    let nRows := ((fldD input "rows" (Json.arr #[])).getArr?.toOption.getD #[]).size
    let viol :=
      (if re == bs then [] else ["block-index-reencodes-to-the-stored-bytes"]) ++
      (if fs == bs then [] else ["block-index-reads-back-from-the-store"]) ++
      (if (fldD v "fromBlockBytes" (Json.str "")).compress == (fldD v "bytes" (Json.str "")).compress then []
       else ["index-from-block-bytes-equals-index-from-rows"]) ++
      (if keyIsHash then [] else ["key-is-hash-of-content"]) ++
      (if idx.rows.length == nRows && isPermOfRange idx.sortedOff nRows && nondecreasingAlong idx.sortedOff idx.rows then []
       else ["block-index-sorted-by-key-hash"])
    return reply (Json.mkObj [("rows", jNat idx.rows.length)]) agree viol
  | "profile" =>
    -- no Lean model of the profile (floating point statistics): re-encoding clauses only
    if resClass impl == "panic" then return reply Json.null false ["no-panic"]
    if resClass impl != "ok" then return reply Json.null false ["unexpected-error"]
    let v := fldD impl "val" Json.null
    let stored := (fldD v "stored" Json.null).compress
    let viol :=
      (if (fldD v "reencoded" Json.null).compress == stored then [] else ["profile-reencodes-to-the-stored-bytes"]) ++
      (if (fldD v "reencoded2" Json.null).compress == stored then [] else ["profile-read-back-equals-written"]) ++
      (if (fldD v "rowsCount" Json.null).compress == (fldD v "rows" Json.null).compress &&
          (fldD v "columns" Json.null).compress == (fldD v "cols" Json.null).compress then [] else ["profile-describes-the-table"])
    return reply Json.null true viol
  | "savehist" =>
    -- a history of Save*/Delete* on one store against the finite map of Model/ObjStore.lean
    let ops ← (← arrFld input "ops").mapM histOpOf
    -- the content hash is a parameter of the model: the harness computes meow of each operation's content
    let digestsJ := fldD (implVal impl) "digests" (Json.arr #[])
    let digests ← (← asArr digestsJ).mapM asBytes
    let table := (ops.zip digests).map fun (h, d) => (h.content, d)
    let H : Bytes → Bytes := fun c => ((table.find? (·.1 == c)).map (·.2)).getD []
    -- the store the history ran on: a plain one (every call lands at once: the finite map) or a
    -- transaction (calls are staged, read through, and reach the database at `commit`; the harness
    -- ends every transactional history with a commit)
    let transactional := (fldD input "store" (Json.str "mem")).compress == "\"txn\""
    if !transactional && ops.any (fun h => match h.op with
        | .commit => true
        | _ => false) then throw "commit on a store that has no transactions"
    let t0 : TxnStore := { base := [], staged := [] }
    let trace : List (ObjStore × ObjStore) :=
      if transactional then (txnTrace H t0 (ops.map (·.op))).map fun t => (t.view H, t.base)
      else (storeTrace H [] (TxnOp.storeOps (ops.map (·.op)))).map fun s => (s, s)
    let final :=
      if transactional then (txnStep H (txnRun H t0 (ops.map (·.op))) .commit).base
      else storeRun H [] (TxnOp.storeOps (ops.map (·.op)))
    let expSteps := (ops.zip trace).map fun (h, st) => jStepExpect H h st.1 st.2
    let mj := jRes id (.ok (Json.mkObj [("steps", Json.arr expSteps.toArray), ("state", jStoreState final), ("digests", digestsJ)]))
    if resClass impl == "panic" then return reply mj false ["no-panic"]
    if resClass impl != "ok" then return reply mj false ["unexpected-error"]
    let v := implVal impl
    let steps ← arrFld v "steps"
    let same (a b : Json) (k : String) : Bool := (fldD a k Json.null).compress == (fldD b k Json.null).compress
    let stepViol : List String := ((ops.zip expSteps).zip steps).flatMap fun ((h, e), o) =>
      (if same o e "err" then [] else ["store-operation-succeeds"]) ++
      (match h.op with
       | .op (.save ..) =>
         (if same o e "sum" then [] else ["save-returns-the-hash-of-the-content"]) ++
         (if same o e "stored" && same o e "exists" then [] else ["what-was-saved-reads-back-whatever-the-key-held"]) ++
         (if same o e "typed" then [] else ["saved-object-reads-back-and-re-encodes-to-what-was-written"])
       | .op (.delete ..) =>
         (if same o e "stored" && same o e "exists" then [] else ["delete-unbinds-the-key"])
       | .commit =>
         -- C06_txn_commit_is_the_direct_history: every key holds what its last save was given
         (if same o e "committed" then [] else ["committed-transaction-holds-what-each-save-was-given"]))
    let viol := stepViol.eraseDups ++
      (if steps.length == ops.length && digests.length == ops.length then [] else ["one-observation-per-operation"]) ++
      (if same v (implVal mj) "state" then [] else ["store-holds-the-last-write-of-each-key-and-nothing-else"])
    return reply mj (sameRes impl mj) viol
  | "refresh" =>
    -- table index / profile recomputed over an existing state; reference: the same refresh onto absent keys
    if resClass impl == "panic" then return reply Json.null false ["no-panic"]
    if resClass impl != "ok" then return reply Json.null false ["unexpected-error"]
    let v := implVal impl
    let same (a b : String) : Bool := (fldD v a Json.null).compress == (fldD v b (Json.str "?")).compress
    let viol :=
      (if same "gotProfile" "refProfile" && same "typedProfile" "refProfile" then []
       else ["refreshed-profile-reads-back-as-written-whatever-the-key-held"]) ++
      (if same "gotIndex" "refIndex" && same "typedIndex" "refIndex" then []
       else ["refreshed-table-index-reads-back-as-written-whatever-the-key-held"]) ++
      (if same "restAfter" "restBefore" then [] else ["refresh-leaves-the-other-objects-as-they-were"])
    return reply Json.null true viol
  | "save" =>
    let kind ← strFld input "kind"
    let content ← asBytes (fldD input "content" (Json.str ""))
    let v := implVal impl
    let viol : List String ←
      if resClass impl == "ok" then do
        let digest ← asBytes (← fld v "digest")
        let sum ← asBytes (← fld v "sum")
        let keys ← (← arrFld v "keys").mapM asBytes
        let stored := (v.getObjVal? "stored").toOption
        pure ((if sum == digest then [] else ["save-sum-is-hash"]) ++
         (if keys == [prefixOf kind ++ digest] then [] else ["save-key-is-prefix-hash-stored-once"]) ++
         (match stored with
          | some s => if (kind == "table" || kind == "commit") && s.compress != (jBytes content).compress then ["save-stored-bytes"] else []
          | none => []))
      else pure ["save-failed"]
    return reply (Json.mkObj [("res", "ok")]) (resClass impl == "ok") viol
  | _ => throw s!"unknown op {op}"

end Wrgl.Drv
