import WrglModel.Driver.Util
import WrglModel.Model.Queue
import WrglModel.Spec.Graph
open Lean
namespace Wrgl.Drv

def jOptNat : Option Nat → Json
  | some n => jNat n
  | none => Json.null

def handleC11 (op : String) (input impl : Json) : Except String Json := do
  let g ← graphOf (← fld input "graph")
  match op with
  | "isanc" =>
    let a ← natFld input "a"
    let b ← natFld input "b"
    let m := jRes Json.bool (isAncestorOf g a b)
    let viol : List String :=
      if resClass impl == "ok" then
        match (fldD impl "val" Json.null).getBool? with
        | .ok v => if v == reach g a b then [] else ["isancestor-iff-reachable"]
        | .error _ => ["bad-impl-output"]
      else if resClass impl == "panic" then ["no-panic"]
      else if g.wf then ["unexpected-error"] else []
    return reply m (sameRes impl m) viol
  | "walk" =>
    let b ← natFld input "b"
    let m := jRes jNats (walk g b)
    let viol : List String :=
      if resClass impl == "ok" then
        match asNatList (fldD impl "val" Json.null) with
        | .ok l =>
          let anc := ancestors g b
          (if l.eraseDups.length == l.length then [] else ["walk-each-once"]) ++
          (if anc.all l.contains && l.all anc.contains then [] else ["walk-visits-exactly-ancestors"])
        | .error _ => ["bad-impl-output"]
      else if resClass impl == "panic" then ["no-panic"]
      else if g.wf then ["unexpected-error"] else []
    return reply m (sameRes impl m) viol
  | "walkn" =>
    -- several start points, repeats allowed: every ancestor of any start exactly once
    let starts ← asNatList (← fld input "inputs")
    let anc := (starts.flatMap (ancestors g)).eraseDups
    let viol : List String :=
      if resClass impl == "ok" then
        match asNatList (fldD impl "val" Json.null) with
        | .ok l =>
          (if l.eraseDups.length == l.length then [] else ["walk-each-once"]) ++
          (if anc.all l.contains && l.all anc.contains then [] else ["walk-visits-exactly-ancestors"])
        | .error _ => ["bad-impl-output"]
      else if resClass impl == "panic" then ["no-panic"]
      else if g.wf then ["unexpected-error"] else []
    return reply (Json.mkObj [("ancestors", jNats anc)]) viol.isEmpty viol
  | "seek" =>
    let inputs ← asNatList (← fld input "inputs")
    let m := jRes jOptNat (seekCommonAncestor g inputs)
    let implRes : Option (Option Nat) :=
      if resClass impl == "ok" then
        match (fldD impl "val" Json.null) with
        | Json.null => some none
        | v => match v.getNat? with
          | .ok n => some (some n)
          | .error _ => none
      else if resClass impl == "err" then some none else none
    let viol : List String :=
      if resClass impl == "panic" then ["no-panic"] else
      match implRes with
      | none => ["bad-impl-output"]
      | some r =>
        let v := seekVerdict g inputs r
        (if v.common then [] else ["seek-result-is-common-ancestor"]) ++
        (if v.inputWhenAncestor then [] else ["seek-result-is-input-when-input-is-ancestor-of-all"]) ++
        (if v.foundIffExists then [] else ["seek-found-iff-exists"])
    return reply m (sameRes impl m) viol
  | "rmanc" =>
    -- `CommitsQueue.RemoveAncestors(inputs)` on a frontier started from `queue` and advanced by
    -- `steps` pops: exactly the queued commits that are ancestors-or-self of an input leave the
    -- queue (whatever the timestamps say), the others stay in their order
    let inputs ← asNatList (← fld input "inputs")
    let starts ← asNatList (← fld input "queue")
    let steps := (fldD input "steps" (jNat 0)).getNat?.toOption.getD 0
    if resClass impl == "panic" then return reply Json.null false ["no-panic"]
    if resClass impl != "ok" then
      return reply Json.null (!g.wf) (if g.wf then ["unexpected-error"] else [])
    let v := fldD impl "val" Json.null
    let before ← asNatList (← fld v "before")
    let after ← asNatList (← fld v "after")
    let expected := before.filter (fun q => !(inputs.any (fun s => reach g q s)))
    let startSet := starts.eraseDups
    let viol : List String :=
      (if after == expected then [] else ["removeancestors-removes-exactly-the-ancestors"]) ++
      (if before.eraseDups.length == before.length && before.all (fun q => starts.any (fun s => reach g q s)) &&
          (steps != 0 || (before.all startSet.contains && startSet.all before.contains))
        then [] else ["frontier-holds-ancestors-of-its-starts-once"])
    return reply (Json.mkObj [("after", jNats expected)]) viol.isEmpty viol
  | "isanc-fault" =>
    -- one read of a commit fails once during the query: an answer, if one is given, is about the
    -- whole graph; an error is acceptable only if the failure was really delivered
    let a ← natFld input "a"
    let b ← natFld input "b"
    let fired := (fldD impl "fired" (Json.bool false)).getBool?.toOption.getD false
    let m := jRes Json.bool (isAncestorOf g a b)
    let viol : List String :=
      if resClass impl == "ok" then
        match (fldD impl "val" Json.null).getBool? with
        | .ok v => if v == reach g a b then [] else ["isancestor-iff-reachable"]
        | .error _ => ["bad-impl-output"]
      else if resClass impl == "panic" then ["no-panic"]
      else if g.wf && !fired then ["unexpected-error"] else []
    return reply m (sameRes impl m || (fired && resClass impl == "err")) viol
  | "walk-fault" =>
    let starts ← asNatList (← fld input "inputs")
    let fired := (fldD impl "fired" (Json.bool false)).getBool?.toOption.getD false
    let anc := (starts.flatMap (ancestors g)).eraseDups
    let viol : List String :=
      if resClass impl == "ok" then
        match asNatList (fldD impl "val" Json.null) with
        | .ok l =>
          (if l.eraseDups.length == l.length then [] else ["walk-each-once"]) ++
          (if anc.all l.contains && l.all anc.contains then [] else ["walk-visits-exactly-ancestors"])
        | .error _ => ["bad-impl-output"]
      else if resClass impl == "panic" then ["no-panic"]
      else if g.wf && !fired then ["unexpected-error"] else []
    return reply (Json.mkObj [("ancestors", jNats anc)]) viol.isEmpty viol
  | "seek-fault" =>
    -- "not found" is a definite answer: only when no common ancestor exists. A base, if one is
    -- given, is judged as ever (for two inputs: a common ancestor; the clauses refuted for the
    -- fault-free code, see op "seek", are not repeated here)
    let inputs ← asNatList (← fld input "inputs")
    let fired := (fldD impl "fired" (Json.bool false)).getBool?.toOption.getD false
    let m := jRes jOptNat (seekCommonAncestor g inputs)
    if resClass impl == "panic" then return reply m false ["no-panic"]
    let kind := (fldD impl "kind" (Json.str "")).getStr?.toOption.getD ""
    if resClass impl == "err" && kind != "not-found" then
      let viol := if g.wf && !fired then ["unexpected-error"] else []
      return reply m viol.isEmpty viol
    let implRes : Option (Option Nat) :=
      if resClass impl == "ok" then
        match (fldD impl "val" Json.null) with
        | Json.null => some none
        | v => match v.getNat? with
          | .ok n => some (some n)
          | .error _ => none
      else some none
    let viol : List String :=
      match implRes with
      | none => ["bad-impl-output"]
      | some r =>
        let v := seekVerdict g inputs r
        (if v.common || inputs.length != 2 then [] else ["seek-result-is-common-ancestor"]) ++
        (if v.foundIffExists then [] else ["seek-found-iff-exists"])
    return reply m viol.isEmpty viol
  | "rmanc-fault" =>
    let inputs ← asNatList (← fld input "inputs")
    let fired := (fldD impl "fired" (Json.bool false)).getBool?.toOption.getD false
    if resClass impl == "panic" then return reply Json.null false ["no-panic"]
    if resClass impl != "ok" then
      let kind := (fldD impl "kind" (Json.str "")).getStr?.toOption.getD ""
      let viol := if kind == "setup" then (if g.wf then ["harness-setup-failed"] else [])
                  else if g.wf && !fired then ["unexpected-error"] else []
      return reply Json.null viol.isEmpty viol
    let v := fldD impl "val" Json.null
    let before ← asNatList (← fld v "before")
    let after ← asNatList (← fld v "after")
    let expected := before.filter (fun q => !(inputs.any (fun s => reach g q s)))
    let viol : List String :=
      if after == expected then [] else ["removeancestors-removes-exactly-the-ancestors"]
    return reply (Json.mkObj [("after", jNats expected)]) viol.isEmpty viol
  | _ => throw s!"unknown op {op}"

end Wrgl.Drv
