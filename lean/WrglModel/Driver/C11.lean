import WrglModel.Driver.Util
import WrglModel.Model.Queue
import WrglModel.Spec.Graph
open Lean
namespace Wrgl.Drv

def jOptNat : Option Nat → Json
  | some n => jNat n
  | none => Json.null

def handleC11 (op : String) (input impl : Json) : Except String Json := do
  let g ← graphOf (← fld input "graph")
  match op with
  | "isanc" =>
    let a ← natFld input "a"
    let b ← natFld input "b"
    let m := jRes Json.bool (isAncestorOf g a b)
    let viol : List String :=
      if resClass impl == "ok" then
        match (fldD impl "val" Json.null).getBool? with
        | .ok v => if v == reach g a b then [] else ["isancestor-iff-reachable"]
        | .error _ => ["bad-impl-output"]
      else if resClass impl == "panic" then ["no-panic"]
      else if g.wf then ["unexpected-error"] else []
    return reply m (sameRes impl m) viol
  | "walk" =>
    let b ← natFld input "b"
    let m := jRes jNats (walk g b)
    let viol : List String :=
      if resClass impl == "ok" then
        match asNatList (fldD impl "val" Json.null) with
        | .ok l =>
          let anc := ancestors g b
          (if l.eraseDups.length == l.length then [] else ["walk-each-once"]) ++
          (if anc.all l.contains && l.all anc.contains then [] else ["walk-visits-exactly-ancestors"])
        | .error _ => ["bad-impl-output"]
      else if resClass impl == "panic" then ["no-panic"]
      else if g.wf then ["unexpected-error"] else []
    return reply m (sameRes impl m) viol
  | "walkn" =>
    -- several start points, repeats allowed: every ancestor of any start exactly once
    let starts ← asNatList (← fld input "inputs")
    let anc := (starts.flatMap (ancestors g)).eraseDups
    let viol : List String :=
      if resClass impl == "ok" then
        match asNatList (fldD impl "val" Json.null) with
        | .ok l =>
          (if l.eraseDups.length == l.length then [] else ["walk-each-once"]) ++
          (if anc.all l.contains && l.all anc.contains then [] else ["walk-visits-exactly-ancestors"])
        | .error _ => ["bad-impl-output"]
      else if resClass impl == "panic" then ["no-panic"]
      else if g.wf then ["unexpected-error"] else []
    return reply (Json.mkObj [("ancestors", jNats anc)]) viol.isEmpty viol
  | "seek" =>
    let inputs ← asNatList (← fld input "inputs")
    let m := jRes jOptNat (seekCommonAncestor g inputs)
    let implRes : Option (Option Nat) :=
      if resClass impl == "ok" then
        match (fldD impl "val" Json.null) with
        | Json.null => some none
        | v => match v.getNat? with
          | .ok n => some (some n)
          | .error _ => none
      else if resClass impl == "err" then some none else none
    let viol : List String :=
      if resClass impl == "panic" then ["no-panic"] else
      match implRes with
      | none => ["bad-impl-output"]
      | some r =>
        let v := seekVerdict g inputs r
        (if v.common then [] else ["seek-result-is-common-ancestor"]) ++
        (if v.inputWhenAncestor then [] else ["seek-result-is-input-when-input-is-ancestor-of-all"]) ++
        (if v.foundIffExists then [] else ["seek-found-iff-exists"])
    return reply m (sameRes impl m) viol
  | "rmanc" =>
    -- `CommitsQueue.RemoveAncestors(inputs)` on a frontier started from `queue` and advanced by
    -- `steps` pops: exactly the queued commits that are ancestors-or-self of an input leave the
    -- queue (whatever the timestamps say), the others stay in their order
    let inputs ← asNatList (← fld input "inputs")
    let starts ← asNatList (← fld input "queue")
    let steps := (fldD input "steps" (jNat 0)).getNat?.toOption.getD 0
    if resClass impl == "panic" then return reply Json.null false ["no-panic"]
    if resClass impl != "ok" then
      return reply Json.null (!g.wf) (if g.wf then ["unexpected-error"] else [])
    let v := fldD impl "val" Json.null
    let before ← asNatList (← fld v "before")
    let after ← asNatList (← fld v "after")
    let expected := before.filter (fun q => !(inputs.any (fun s => reach g q s)))
    let startSet := starts.eraseDups
    let viol : List String :=
      (if after == expected then [] else ["removeancestors-removes-exactly-the-ancestors"]) ++
      (if before.eraseDups.length == before.length && before.all (fun q => starts.any (fun s => reach g q s)) &&
          (steps != 0 || (before.all startSet.contains && startSet.all before.contains))
        then [] else ["frontier-holds-ancestors-of-its-starts-once"])
    return reply (Json.mkObj [("after", jNats expected)]) viol.isEmpty viol
  | _ => throw s!"unknown op {op}"

end Wrgl.Drv
