import WrglModel.Driver.Util
import WrglModel.Model.Finder
import WrglModel.Spec.Finder
import WrglModel.Gen.Facts
open Lean
namespace Wrgl.Drv

/-- deterministic tie-break of the initial queue: newest first, equal times by input order
    (the Go sort is unstable: results are compared as sets) -/
def tieSort (items : List (Nat × Int)) : List (Nat × Int) := items.mergeSort (fun a b => decide (a.2 ≥ b.2))

structure Round where
  wants : List Nat
  haves : List Nat
  done : Bool

def roundOf (j : Json) : Except String Round := do
  return { wants := ← asNatList (fldD j "wants" (Json.arr #[])), haves := ← asNatList (fldD j "haves" (Json.arr #[])),
           done := (fldD j "done" (Json.bool false)).getBool?.toOption.getD false }

def sortNats (l : List Nat) : List Nat := l.mergeSort (fun a b => decide (a ≤ b))

def handleC08 (op : String) (input impl : Json) : Except String Json := do
  match op with
  | "negotiate" =>
    let g ← graphOf (← fld input "graph")
    let refs ← asNatList (fldD input "refs" (Json.arr #[]))
    let missing ← asNatList (fldD input "tableMissing" (Json.arr #[]))
    let depth ← natFld input "depth"
    let rounds ← (← arrFld input "rounds").mapM roundOf
    let tableOf : Nat → Nat := fun c => match g.get? c with
      | some cm => cm.table
      | none => 0
    -- `tableMissing` lists table numbers whose object is absent (commits may share a table)
    let full : Full := fun c => !missing.contains (tableOf c)
    let walkFuel := 400000
    -- `retry`: the session goes on with the same finder after a refused request; the refused round
    -- changes nothing and is reported by its index
    let retry := (fldD input "retry" (Json.bool false)).getBool?.toOption.getD false
    -- model: run the rounds
    let rec go (f : Finder) (rs : List Round) (k : Nat) (acks : List (List Nat)) (refused : List Nat) : Res (Finder × List (List Nat) × List Nat) :=
      match rs with
      | [] => .ok (f, acks.reverse, refused.reverse)
      | r :: rest =>
        match Finder.process Facts.finderRevisitsWithinDepth g full tieSort sortNats depth walkFuel refs f r.wants r.haves r.done with
        | .ok (a, f') => go f' rest (k + 1) (a :: acks) refused
        | .err e => if retry && e == "unrecognized-wants" then go f rest (k + 1) ([] :: acks) (k :: refused) else .err e
        | .panic p => .panic p
    let m : Res Json := match go Finder.init rounds 0 [] [] with
      | .ok (f, acks, refused) =>
        match Finder.finish Facts.finderRevisitsWithinDepth g sortNats depth walkFuel f with
        | .ok (sent, tabs, f') =>
          .ok (Json.mkObj [("acks", Json.arr (acks.map (fun a => jNats (sortNats a))).toArray),
                           ("sentSet", jNats (sortNats sent.eraseDups)),
                           ("tables", jNats (sortNats (tabs.map tableOf).eraseDups)),
                           ("commons", jNats (sortNats f'.commons)),
                           ("refused", jNats refused)])
        | .err e => .err e
        | .panic p => .panic p
      | .err e => .err e
      | .panic p => .panic p
    let mj := jRes id m
    -- which requests are legitimate: every want reachable from a ref (of any namespace) and with its
    -- table present
    let reachable := ancestorsOfAll g refs
    let roundOk := fun (r : Round) => r.wants.all (fun w => reachable.contains w && full w)
    let wantsOk := rounds.all roundOk
    if resClass impl == "panic" then return reply mj false ["no-panic"]
    if resClass impl == "err" then
      let kind := (fldD impl "kind" Json.null).compress
      if kind == "\"unrecognized-wants\"" then
        return reply mj (resClass mj == "err") (if wantsOk then ["reachable-wants-accepted"] else [])
      else
        return reply mj (resClass mj == "err") ["unexpected-error"]
    let v := fldD impl "val" Json.null
    let sent ← asNatList (fldD v "sent" (Json.arr #[]))
    let tables ← asNatList (fldD v "tables" (Json.arr #[]))
    let commons ← asNatList (fldD v "commons" (Json.arr #[]))
    let irefused ← asNatList (fldD v "refused" (Json.arr #[]))
    let iacks ← (← asArr (fldD v "acks" (Json.arr #[]))).mapM asNatList
    -- the wants the implementation accepted: those of the rounds it did not refuse. Everything sent
    -- must be justified by them alone; a refused want justifies nothing, in whatever round it came.
    let indexed := rounds.zip (List.range rounds.length)
    let acceptedRounds := (indexed.filter (fun (_, k) => !irefused.contains k)).map (·.1)
    let refusedRounds := (indexed.filter (fun (_, k) => irefused.contains k)).map (·.1)
    let acceptedWants := (acceptedRounds.flatMap (·.wants)).eraseDups
    let scen : FinderScenario := { g := g, tableOf := tableOf, depth := depth, wants := acceptedWants, commons := commons }
    let viol := (if acceptedRounds.all roundOk then [] else ["unreachable-wants-refused"]) ++
      (if refusedRounds.all (fun r => !roundOk r) then [] else ["reachable-wants-accepted"]) ++
      (if (indexed.filter (fun (_, k) => irefused.contains k)).all (fun (_, k) => (iacks.getD k []).isEmpty) then [] else ["refused-request-acknowledges-nothing"]) ++
      finderVerdict scen sent tables
    let agree := match m with
      | .ok mv =>
        (fldD mv "acks" Json.null).compress == (Json.arr (iacks.map (fun a => jNats (sortNats a))).toArray).compress &&
        (fldD mv "sentSet" Json.null).compress == (jNats (sortNats sent.eraseDups)).compress &&
        (fldD mv "commons" Json.null).compress == (jNats (sortNats commons)).compress &&
        (fldD mv "refused" Json.null).compress == (jNats irefused).compress
      | _ => false
    return reply mj agree viol
  | _ => throw s!"unknown op {op}"

end Wrgl.Drv
