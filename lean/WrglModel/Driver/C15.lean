import WrglModel.Driver.Util
import WrglModel.Model.RefStore
import WrglModel.Spec.RefStore
import WrglModel.Gen.Facts
open Lean
namespace Wrgl.Drv

def strList (j : Json) : Except String (List String) := do (← asArr j).mapM asStr

/-- What the caller hands to a logged set besides the value: message, transaction id (or null),
    author name, author e-mail, action, time (Unix seconds). The model carries it as one opaque
    payload (`LogRow.msg` / `Entry.msg`): the store has to give back every part of it unchanged, from
    the ref's own log and from the log of every rename/copy of the ref. -/
def logPayload (m txid author email action time : Json) : String :=
  (Json.arr #[m, txid, author, email, action, time]).compress

/-- the fixed caller data of the plain `setlog`/`setlogold`/`setlogfail` operations of the harness -/
def plainPayload (m : Json) : String :=
  logPayload m Json.null (Json.str "a") (Json.str "e") (Json.str "act") (jNat 1700000000)

def ropOf (j : Json) : Except String ROp := do
  match ← asArr j with
  | [Json.str "set", k, v] => return .set (← asStr k) (← asBytes v)
  | [Json.str "setlog", k, v, m] => return .setLog (← asStr k) (← asBytes v) (plainPayload m)
  | [Json.str "setlogold", k, v, m, _] => return .setLog (← asStr k) (← asBytes v) (plainPayload m)   -- a stale caller-supplied old value is ignored
  -- a logged set with every caller-supplied field chosen by the generator (transaction id or "")
  | [Json.str "setlogx", k, v, m, txid, author, email, action, time] =>
    let tx := if txid == Json.str "" then Json.null else txid
    return .setLog (← asStr k) (← asBytes v) (logPayload m tx author email action time)
  | [Json.str "get", k] => return .get (← asStr k)
  | [Json.str "del", k] => return .del (← asStr k)
  | [Json.str "filter", ps, nps] => return .filter (← strList ps) (← strList nps)
  | [Json.str "filterkey", ps, nps] => return .filterKey (← strList ps) (← strList nps)
  | [Json.str "rename", a, b] => return .rename (← asStr a) (← asStr b)
  | [Json.str "copy", a, b] => return .copy (← asStr a) (← asStr b)
  | [Json.str "log", k] => return .log (← asStr k)
  | [Json.str "listrefs", p] => return .listRefs (← asStr p)
  | [Json.str "delallremote", r] => return .delAllRemote (← asStr r)
  | [Json.str "renameallremote", a, b] => return .renameAllRemote (← asStr a) (← asStr b)
  | _ => throw "bad ref op"

def jOptB : Option Bytes → Json
  | some b => jBytes b
  | none => Json.null

def jROut : ROut → Json
  | .ok => "ok"
  | .err => "err"
  | .val v => jOptB v
  | .pairs l => Json.arr (l.map (fun p => Json.arr #[Json.str p.1, jBytes p.2])).toArray
  | .names l => jStrs l
  | .log none => "notfound"
  | .log (some es) => Json.arr (es.map (fun e =>
      -- [old, new, message, txid, author, e-mail, action, time]
      let rest := match Json.parse e.msg with
        | .ok (Json.arr a) => a
        | _ => #[Json.str e.msg]
      Json.arr (#[jOptB e.old, jBytes e.new] ++ rest))).toArray

def opKind (j : Json) : String :=
  match j.getArr? with
  | .ok a => (a[0]?.bind (fun x => x.getStr?.toOption)).getD "?"
  | .error _ => "?"

def handleC15 (op : String) (input impl : Json) : Except String Json := do
  match op with
  | "ops" =>
    let opsJ ← arrFld input "ops"
    -- `setlogfail`: a logged set whose reflog insert is made to fail (an SQL trigger installed by the
    -- harness): ref and log are written in one transaction, so it must fail and change nothing —
    -- for the model it is not an operation at all
    -- `rejrename` / `rejcopy` / `rejset` (file store, harness/c15.go `c15FsDomain` a7): a rename / copy
    -- / set whose destination cannot be a file in the store's directory layout (it is an existing
    -- directory, or lies below a bound name; the runner refuses the sequence otherwise). The
    -- operation has to be refused and — a refused operation on a map changes nothing — is not an
    -- operation for the model either: every later read must give what it gave before.
    let isFail := fun (o : Json) => ["setlogfail", "rejrename", "rejcopy", "rejset"].contains (opKind o)
    let ops ← (opsJ.filter (fun o => !isFail o)).mapM ropOf
    let splice := fun (outs : List Json) =>
      let rec go (os : List Json) (rs : List Json) (acc : List Json) : List Json :=
        match os with
        | [] => acc.reverse
        | o :: rest =>
          if isFail o then go rest rs (Json.str "err" :: acc)
          else match rs with
            | r :: rs' => go rest rs' (r :: acc)
            | [] => acc.reverse
      go opsJ outs []
    -- `"store":"fs"`: the sequence ran on the file-based store (pkg/ref/fs). It is judged by the same
    -- abstract map in its file-store form `runAF` (Spec/RefStore.lean: deleting an unbound name is an
    -- error; rename/copy replace a bound destination, value and log); there is no separate concrete
    -- model of the file store, so the reported model trace is that map's too. What the runner does
    -- differently for this store (old value handed in by the caller as ref.SaveRef does, FilterKey
    -- sorted) and what is never generated for it is listed in harness/c15.go (`c15FsDomain`).
    let fs := fldD input "store" Json.null == Json.str "fs"
    let outsAJ := splice (((if fs then runAF else runA) { vals := [], logs := [] } ops).map jROut)
    let outsCJ := if fs then outsAJ
      else splice ((runC Facts.refFilterIsLiteralPrefix { refs := [], logs := [] } ops).map jROut)
    let mj := Json.mkObj [("res", "ok"), ("val", Json.arr outsCJ.toArray)]
    let viol ←
      if resClass impl == "ok" then do
        let io ← asArr (fldD impl "val" Json.null)
        let exp := outsAJ
        let bad := ((io.zip exp).zip opsJ).filterMap (fun ((i, e), o) =>
          if i.compress == e.compress then none else some ("ref-store-" ++ opKind o ++ "-behaves-as-map"))
        pure ((if io.length == exp.length then [] else ["trace-length"]) ++ bad.eraseDups)
      else if resClass impl == "panic" then pure ["no-panic"] else pure ["unexpected-error"]
    return reply mj (sameRes impl mj) viol
  | _ => throw s!"unknown op {op}"

end Wrgl.Drv
