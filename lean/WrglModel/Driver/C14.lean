import WrglModel.Driver.Util
import WrglModel.Model.Tx
import WrglModel.Gen.Facts
open Lean
namespace Wrgl.Drv

def cidStr : Cid → String
  | .none => "none"
  | .orig n => s!"o{n}"
  | .txc s p => s!"t({s},{cidStr p})"
  | .adv n p => s!"a({n},{cidStr p})"

def sortStrs (l : List String) : List String := l.mergeSort (fun a b => decide (a ≤ b))

def jTxSt (s : TxSt) (outcome : String) : Json :=
  let heads := (s.heads.mergeSort (fun a b => decide (a.1 ≤ b.1))).map (fun p => Json.arr #[Json.str p.1, Json.str (cidStr p.2)])
  let branches := (s.logs.map (·.branch)).eraseDups
  Json.mkObj [("heads", Json.arr heads.toArray), ("staged", jStrs (sortStrs (s.staged.map (·.1)))),
              ("exists", Json.bool s.exists_), ("committed", Json.bool s.committed),
              ("logs", Json.mkObj (branches.map (fun b => (b, jNat (s.logs.filter (·.branch == b)).length)))),
              ("outcome", Json.str outcome)]

def outcomeStr : TxOutcome → String
  | .ok => "ok"
  | .refused => "refused"
  | .failed => "failed"

def objPairs (j : Json) : Except String (List (String × Nat)) := do
  match j with
  | Json.obj kvs => kvs.toList.mapM (fun (k, v) => do return (k, ← asNat v))
  | _ => throw "expected object"

def stripMoved (j : Json) : Json :=
  match j with
  | Json.obj kvs => Json.obj (kvs.erase "moved")
  | x => x

/-- one operation of a scenario: `commit` / `discard`, with at most one injected fault:
    `failAt = k ≥ 0` — the (k+1)-th write through the store interfaces fails;
    `sql` — one SQL statement class of the ref store is made to fail by a trigger (`head-upsert` and
    `reflog-insert`: the two statements of the logged ref update of branch `on`; `tx-update`: the status
    flip; `staged-delete`: the delete of the staged ref of branch `on`; `tx-delete`: the delete of the
    transaction row);
    `hide` — the staged commit object of that branch is unreadable (command-line scenarios).
    `advance` is not an operation of the transaction: another operation of the repository puts the
    ordinary commit `new` on branch `on` in between (`txAdvance`). -/
structure TxOpJ where
  kind : String
  failAt : Int
  sql : String
  on : String
  hide : String
  new : Nat

def TxOpJ.healthy (o : TxOpJ) : Bool := o.failAt < 0 && o.sql == "" && o.hide == ""

def txOpOf (o : Json) : Except String TxOpJ := do
  let str := fun (k : String) => (fldD o k (Json.str "")).getStr?.toOption.getD ""
  return { kind := ← strFld o "kind", failAt := ← intFld o "failAt",
           sql := str "sql", on := str "on", hide := str "hide",
           new := (fldD o "new" (jNat 0)).getNat?.toOption.getD 0 }

def strsOf (j : Json) (k : String) : List String :=
  ((fldD j k (Json.arr #[])).getArr?.toOption.getD #[]).toList.filterMap (fun x => x.getStr?.toOption)

/-- Branch order and failing write of a `commit` for the model. The order is the one the
    implementation took (Go iterates a map): the branches it moved, then the rest. A fault tied to
    one branch (a failing SQL statement of its ref update, its staged commit unreadable) fires when
    the loop reaches that branch — if the branch is staged and not yet moved by the transaction —
    at write `2·(branches moved before it in this run) + w` (`w = 0`: before the commit object is
    written; `w = 1`: inside the logged ref update, which is one SQL transaction and changes nothing). -/
def commitPlan (o : TxOpJ) (s : TxSt) (i : Json) : List String × Option Nat :=
  let movedAfter := strsOf i "moved"
  let stagedNames := sortStrs (s.staged.map (·.1))
  let pending := fun (b : String) => s.staged.any (fun p => p.1 == b) && !s.logs.any (fun l => l.branch == b)
  let std := movedAfter ++ stagedNames.filter (fun b => !movedAfter.contains b)
  let atBranch := fun (b : String) (w : Nat) =>
    if pending b then
      let before := movedAfter.filter (· != b)
      (before ++ [b] ++ stagedNames.filter (fun x => x != b && !before.contains x),
       some (2 * (before.filter pending).length + w))
    else (std, none)
  if o.failAt ≥ 0 then (std, some o.failAt.toNat)
  else if o.hide != "" then atBranch o.hide 0
  else if o.sql == "head-upsert" || o.sql == "reflog-insert" then atBranch o.on 1
  else if o.sql == "tx-update" then (std, some (2 * (stagedNames.filter pending).length))
  else (std, none)

/-- Delete order and failing store operation of a `discard` under a fault (`none`: no fault fires) -/
def discardPlan (o : TxOpJ) (s : TxSt) (i : Json) : Option (List String × Nat) :=
  let stagedAfter := strsOf i "staged"
  let stagedNames := sortStrs (s.staged.map (·.1))
  let std := stagedNames.filter (fun b => !stagedAfter.contains b) ++ stagedNames.filter (fun b => stagedAfter.contains b)
  if o.failAt ≥ 0 then some (std, o.failAt.toNat)
  else if o.sql == "staged-delete" then
    if stagedNames.contains o.on then
      let gone := stagedNames.filter (fun b => b != o.on && !stagedAfter.contains b)
      some (gone ++ [o.on] ++ stagedNames.filter (fun b => b != o.on && !gone.contains b), gone.length)
    else none
  else if o.sql == "tx-delete" then some (std, stagedNames.length)
  else none

/-- Model run and property clauses for one transaction scenario. `cli`: the operations were run as
    `wrgl transaction commit/discard` commands, whose only outcome is success or an error. -/
def txVerdict (cli : Bool) (input : Json) (istates : List Json) : Except String (Json × Bool × List String) := do
    let heads ← objPairs (fldD input "heads" (Json.mkObj []))
    let staged ← objPairs (fldD input "staged" (Json.mkObj []))
    let ops ← (← arrFld input "ops").mapM txOpOf
    let unw := strsOf input "unwritable"
    let unwStaged := staged.any (fun p => unw.contains p.1)
    let outStr := fun (o : TxOutcome) => if cli && o != .ok then "error" else outcomeStr o
    let init : TxSt := { heads := heads.map (fun p => (p.1, Cid.orig p.2)), staged := staged, logs := [], exists_ := true,
                         committed := false, objects := [] }
    -- run the model; the branch order of each commit is the one the implementation took
    -- (branches already moved, then the rest) — Go iterates a map
    let rec go (s : TxSt) (os : List TxOpJ) (ist : List Json) (acc : List Json) : List Json :=
      match os, ist with
      | [], _ => acc.reverse
      | o :: rest, i :: irest =>
        let (s', oc) := if o.kind == "advance" then (txAdvance o.on o.new s, TxOutcome.ok)
          else if o.kind == "commit" then
            let (order, failAt) := commitPlan o s i
            -- a staged commit that cannot be rewritten (its message does not fit once prefixed) and
            -- is still to be applied makes the whole commit a refusal: nothing is written
            let blocked := s.staged.any (fun p => unw.contains p.1 && !s.logs.any (fun l => l.branch == p.1))
            if blocked then (s, TxOutcome.refused) else txCommit Facts.txCommitGuarded order failAt s
          else match discardPlan o s i with
            | none => txDiscard Facts.txDiscardGuardFirst s
            | some (delOrder, k) => txDiscardFault Facts.txDiscardGuardFirst delOrder k s
        go s' rest irest (jTxSt s' (outStr oc) :: acc)
      | _, [] => acc.reverse
    let mstates := jTxSt init "init" :: go init ops (istates.drop 1) []
    let mj := Json.arr mstates.toArray
    let agree := mstates.length == istates.length &&
      (mstates.zip istates).all (fun (m, i) => m.compress == (stripMoved i).compress)
    -- property clauses on the implementation's states
    let final := istates.getLast?.getD Json.null
    let expHeads := (allBranchesHeads init).mergeSort (fun a b => decide (a.1 ≤ b.1))
    let expHeadsJ := Json.arr (expHeads.map (fun p => Json.arr #[Json.str p.1, Json.str (cidStr p.2)])).toArray
    let initHeadsJ := fldD (istates.headD Json.null) "heads" Json.null
    let isCommitted := fun (j : Json) => (fldD j "committed" (Json.bool false)).getBool?.toOption.getD false
    let headsOf := fun (j : Json) => (fldD j "heads" Json.null).compress
    let outcomeOf := fun (j : Json) => (fldD j "outcome" Json.null).getStr?.toOption.getD ""
    let isRefusal := fun (o : String) => if cli then o == "error" else o == "refused"
    let headPairs := fun (j : Json) => ((fldD j "heads" (Json.arr #[])).getArr?.toOption.getD #[]).toList.filterMap (fun p =>
      match p.getArr?.toOption.map (·.toList) with
      | some [Json.str b, Json.str c] => some (b, c)
      | _ => none)
    let logCount := fun (j : Json) (b : String) => (fldD (fldD j "logs" (Json.mkObj [])) b (jNat 0)).getNat?.toOption.getD 0
    let initCid := fun (b : String) => cidStr (init.head b)
    let pairs := istates.zip (istates.drop 1)
    -- Other operations committing to the branches in between (`advance`). State number `n` is the one
    -- after the first `n` operations; `advsOf n b`: the ordinary commits put on branch `b` so far.
    let hasAdv := ops.any (fun o => o.kind == "advance")
    let numbered := istates.zip (List.range istates.length)
    let advsOf := fun (n : Nat) (b : String) =>
      (ops.take n).filterMap (fun o => if o.kind == "advance" && o.on == b then some o.new else none)
    -- where branch `b` is when the transaction has not moved it: its head of before, with those commits on top
    let plainCid := fun (n : Nat) (b : String) => cidStr (applyAdvs (init.head b) (advsOf n b))
    -- where it may be when the transaction has moved it: the staged commit on the head of that
    -- moment, exactly once, later commits on top (Model/Tx.lean `movedOnceHeads`)
    let movedCids := fun (n : Nat) (b : String) =>
      match (staged.find? (fun p => p.1 == b)).map (·.2) with
      | some st => (movedOnceHeads (init.head b) st (advsOf n b)).map cidStr
      | none => []
    -- the all-branches outcome in state `n`: the branches of before, the staged ones and those
    -- other operations made; a staged branch moved exactly once, any other where those operations left it
    let allMovedOnce := fun (s : Json) (n : Nat) =>
      let names := sortStrs ((init.heads.map (·.1) ++ staged.map (·.1) ++
        (ops.take n).filterMap (fun o => if o.kind == "advance" then some o.on else none)).eraseDups)
      (headPairs s).map (·.1) == names &&
      (headPairs s).all (fun (b, c) =>
        if staged.any (fun p => p.1 == b) then (movedCids n b).contains c else c == plainCid n b)
    let plainHeads := fun (s : Json) (n : Nat) =>
      (headPairs s).map (·.1) == sortStrs ((init.heads.map (·.1) ++
        (ops.take n).filterMap (fun o => if o.kind == "advance" then some o.on else none)).eraseDups) &&
      (headPairs s).all (fun (b, c) => c == plainCid n b)
    let viol :=
      -- once committed, the heads are exactly the all-branches outcome, each branch logged exactly once
      (if (if hasAdv then numbered.all (fun (s, n) => !isCommitted s || allMovedOnce s n)
           else istates.all (fun s => !isCommitted s || headsOf s == expHeadsJ.compress)) then [] else ["committed-means-all-branches-moved-exactly-once"]) ++
      (if istates.all (fun s => !isCommitted s ||
          (match objPairs (fldD s "logs" (Json.mkObj [])) with
           | .ok l => staged.all (fun p => l.any (fun q => q.1 == p.1 && q.2 == 1)) && l.all (fun q => q.2 ≤ 1)
           | .error _ => false)) then [] else ["each-branch-logged-exactly-once"]) ++
      -- a failed commit followed by successful re-runs ends in the all-branches outcome
      -- a transaction holding a staged commit that cannot be rewritten can never be committed: it must
      -- then not be committed in part either — no branch ever moves (all or nothing)
      (if unwStaged && !(if hasAdv then numbered.all (fun (s, n) => !isCommitted s && plainHeads s n)
                         else istates.all (fun s => !isCommitted s && headsOf s == initHeadsJ.compress)) then
         ["uncommittable-transaction-moves-no-branch"] else []) ++
      (if !unwStaged && ops.any (fun o => o.kind == "commit" && o.healthy) && !ops.any (fun o => o.kind == "discard") then
         (if isCommitted final && (if hasAdv then allMovedOnce final (istates.length - 1) else headsOf final == expHeadsJ.compress)
          then [] else ["rerun-completes-to-all-branches-outcome"]) else []) ++
      -- a refused or successful discard never touches a branch; commit/discard of a committed transaction change nothing
      -- (a commit some other operation makes on a branch is neither)
      (if (pairs.zip ops).all (fun ((a, b), o) => o.kind == "advance" ||
          (o.kind != "discard" || headsOf a == headsOf b) &&
          (!isCommitted a || (stripMoved a |>.setObjVal! "outcome" Json.null).compress == (stripMoved b |>.setObjVal! "outcome" Json.null).compress) &&
          (!isCommitted a || isRefusal (outcomeOf b))) then [] else ["discard-never-touches-branches-and-committed-is-final"]) ++
      -- a successful discard of an open transaction removes all staged refs
      (if (pairs.zip ops).all (fun ((a, b), o) => o.kind != "discard" || isCommitted a || outcomeOf b != "ok" ||
          (fldD b "staged" Json.null).compress == "[]") then [] else ["discard-removes-all-staged-refs"]) ++
      -- at every point a branch is either where it was before the transaction or carries the
      -- transaction's commit AND the entry in its log that says so (a moved branch without the entry
      -- is neither "where it was" nor completable: the re-run does not recognise it)
      (if numbered.all (fun (s, n) => (headPairs s).all (fun (b, c) =>
          (if hasAdv then c == plainCid n b else c == initCid b) || logCount s b ≥ 1)) then []
       else ["moved-branch-is-recorded-in-its-log"]) ++
      -- at every point — before, between and after the runs of the commit, whatever other operations
      -- have committed to the branches meanwhile — a branch is where those operations alone would have
      -- left it, or carries the staged commit exactly once: no duplicated commits
      (if numbered.all (fun (s, n) => (headPairs s).all (fun (b, c) => c == plainCid n b || (movedCids n b).contains c)) then []
       else ["branch-unmoved-or-moved-exactly-once"]) ++
      -- until a commit of the transaction is attempted, no branch moves
      (if ((istates.zip (List.range istates.length)).all (fun (s, n) =>
          (ops.take n).any (fun o => o.kind == "commit") ||
          (headPairs s).all (fun (b, c) => if hasAdv then c == plainCid n b else c == initCid b) && (init.heads.all (fun h => (headPairs s).any (fun q => q.1 == h.1))))) then []
       else ["uncommitted-transaction-moves-no-branch"]) ++
      (if headsOf (istates.headD Json.null) == initHeadsJ.compress then [] else [])
    return (mj, agree, viol)

def handleC14 (op : String) (input impl : Json) : Except String Json := do
  match op with
  | "tx" =>
    if resClass impl == "panic" then return reply Json.null false ["no-panic"]
    if resClass impl != "ok" then return reply Json.null false ["unexpected-error"]
    let istates ← asArr (fldD impl "val" Json.null)
    let (mj, agree, viol) ← txVerdict false input istates
    return reply mj agree viol
  | "tx-cli-stage" =>
    -- branches created and the transaction staged through `wrgl commit ... --txid` (file given on the
    -- command line / taken from branch.<name>.file / `--all`), then `wrgl transaction commit/discard`:
    -- `states[0]` is the repository after staging, `pre` before it
    if resClass impl == "panic" then return reply Json.null false ["no-panic"]
    if resClass impl != "ok" then return reply Json.null false ["unexpected-error"]
    let v := fldD impl "val" Json.null
    let istates ← asArr (fldD v "states" Json.null)
    let pre := fldD v "pre" Json.null
    let (mj, agree, viol) ← txVerdict true input istates
    let headsOf := fun (j : Json) => (fldD j "heads" Json.null).compress
    let stageViol :=
      (if headsOf pre == headsOf (istates.headD Json.null) then [] else ["staging-moves-no-branch"]) ++
      (if (fldD pre "staged" Json.null).compress == "[]" then [] else ["harness-setup-failed"])
    return reply mj agree (stageViol ++ viol)
  | "tx-cli" =>
    -- `wrgl transaction commit` failing midway (one staged commit object unreadable), then again with
    -- the object restored: it completes to the all-branches outcome, each branch moved exactly once
    if resClass impl == "panic" then return reply Json.null false ["no-panic"]
    if resClass impl != "ok" then return reply Json.null false ["unexpected-error"]
    let nb ← natFld input "branches"
    let v := fldD impl "val" Json.null
    let n := fun (k : String) => (fldD v k (jNat 0)).getNat?.toOption.getD 0
    let b := fun (k : String) => (fldD v k (Json.bool false)).getBool?.toOption.getD false
    let viol :=
      (if b "firstFailed" then [] else ["harness-setup-failed"]) ++
      (if n "movedAfterFirst" ≤ nb then [] else ["no-duplicate-commits"]) ++
      (if b "secondOk" && n "movedAfterSecond" == nb then [] else ["rerun-completes-to-all-branches-outcome"]) ++
      (if n "logEntries" == nb || !b "secondOk" then [] else ["each-branch-logged-exactly-once"])
    return reply (Json.mkObj [("movedAfterSecond", jNat nb)]) viol.isEmpty viol
  | _ => throw s!"unknown op {op}"

end Wrgl.Drv
