import WrglModel.Driver.Util
import WrglModel.Model.Tx
import WrglModel.Gen.Facts
open Lean
namespace Wrgl.Drv

def cidStr : Cid → String
  | .none => "none"
  | .orig n => s!"o{n}"
  | .txc s p => s!"t({s},{cidStr p})"

def sortStrs (l : List String) : List String := l.mergeSort (fun a b => decide (a ≤ b))

def jTxSt (s : TxSt) (outcome : String) : Json :=
  let heads := (s.heads.mergeSort (fun a b => decide (a.1 ≤ b.1))).map (fun p => Json.arr #[Json.str p.1, Json.str (cidStr p.2)])
  let branches := (s.logs.map (·.branch)).eraseDups
  Json.mkObj [("heads", Json.arr heads.toArray), ("staged", jStrs (sortStrs (s.staged.map (·.1)))),
              ("exists", Json.bool s.exists_), ("committed", Json.bool s.committed),
              ("logs", Json.mkObj (branches.map (fun b => (b, jNat (s.logs.filter (·.branch == b)).length)))),
              ("outcome", Json.str outcome)]

def outcomeStr : TxOutcome → String
  | .ok => "ok"
  | .refused => "refused"
  | .failed => "failed"

def objPairs (j : Json) : Except String (List (String × Nat)) := do
  match j with
  | Json.obj kvs => kvs.toList.mapM (fun (k, v) => do return (k, ← asNat v))
  | _ => throw "expected object"

def stripMoved (j : Json) : Json :=
  match j with
  | Json.obj kvs => Json.obj (kvs.erase "moved")
  | x => x

def handleC14 (op : String) (input impl : Json) : Except String Json := do
  match op with
  | "tx" =>
    let heads ← objPairs (fldD input "heads" (Json.mkObj []))
    let staged ← objPairs (fldD input "staged" (Json.mkObj []))
    let ops ← (← arrFld input "ops").mapM fun o => do
      return (← strFld o "kind", ← intFld o "failAt")
    if resClass impl == "panic" then return reply Json.null false ["no-panic"]
    if resClass impl != "ok" then return reply Json.null false ["unexpected-error"]
    let istates ← asArr (fldD impl "val" Json.null)
    let init : TxSt := { heads := heads.map (fun p => (p.1, Cid.orig p.2)), staged := staged, logs := [], exists_ := true,
                         committed := false, objects := [] }
    -- run the model; the branch order of each commit is the one the implementation took
    -- (branches already moved, then the rest) — Go iterates a map
    let rec go (s : TxSt) (os : List (String × Int)) (ist : List Json) (acc : List Json) : List Json :=
      match os, ist with
      | [], _ => acc.reverse
      | (kind, f) :: rest, i :: irest =>
        let movedAfter := ((fldD i "moved" (Json.arr #[])).getArr?.toOption.getD #[]).toList.filterMap (fun x => x.getStr?.toOption)
        let order := movedAfter ++ (sortStrs (s.staged.map (·.1))).filter (fun b => !movedAfter.contains b)
        let failAt : Option Nat := if f < 0 then none else some f.toNat
        -- discard under a fault: the staged refs the implementation deleted come first in the order
        let stagedAfter := ((fldD i "staged" (Json.arr #[])).getArr?.toOption.getD #[]).toList.filterMap (fun x => x.getStr?.toOption)
        let stagedNames := sortStrs (s.staged.map (·.1))
        let delOrder := stagedNames.filter (fun b => !stagedAfter.contains b) ++ stagedNames.filter (fun b => stagedAfter.contains b)
        let (s', o) := if kind == "commit" then txCommit Facts.txCommitGuarded order failAt s
          else match failAt with
            | none => txDiscard Facts.txDiscardGuardFirst s
            | some k => txDiscardFault Facts.txDiscardGuardFirst delOrder k s
        go s' rest irest (jTxSt s' (outcomeStr o) :: acc)
      | _, [] => acc.reverse
    let mstates := jTxSt init "init" :: go init ops (istates.drop 1) []
    let mj := Json.arr mstates.toArray
    let agree := mstates.length == istates.length &&
      (mstates.zip istates).all (fun (m, i) => m.compress == (stripMoved i).compress)
    -- property clauses on the implementation's states
    let final := istates.getLast?.getD Json.null
    let expHeads := (allBranchesHeads init).mergeSort (fun a b => decide (a.1 ≤ b.1))
    let expHeadsJ := Json.arr (expHeads.map (fun p => Json.arr #[Json.str p.1, Json.str (cidStr p.2)])).toArray
    let initHeadsJ := fldD (istates.headD Json.null) "heads" Json.null
    let isCommitted := fun (j : Json) => (fldD j "committed" (Json.bool false)).getBool?.toOption.getD false
    let headsOf := fun (j : Json) => (fldD j "heads" Json.null).compress
    let outcomeOf := fun (j : Json) => (fldD j "outcome" Json.null).getStr?.toOption.getD ""
    let pairs := istates.zip (istates.drop 1)
    let viol :=
      -- once committed, the heads are exactly the all-branches outcome, each branch logged exactly once
      (if istates.all (fun s => !isCommitted s || headsOf s == expHeadsJ.compress) then [] else ["committed-means-all-branches-moved-exactly-once"]) ++
      (if istates.all (fun s => !isCommitted s ||
          (match objPairs (fldD s "logs" (Json.mkObj [])) with
           | .ok l => staged.all (fun p => l.any (fun q => q.1 == p.1 && q.2 == 1)) && l.all (fun q => q.2 ≤ 1)
           | .error _ => false)) then [] else ["each-branch-logged-exactly-once"]) ++
      -- a failed commit followed by successful re-runs ends in the all-branches outcome
      (if ops.any (fun o => o.1 == "commit" && o.2 < 0) && !ops.any (fun o => o.1 == "discard") then
         (if isCommitted final && headsOf final == expHeadsJ.compress then [] else ["rerun-completes-to-all-branches-outcome"]) else []) ++
      -- a refused or successful discard never touches a branch; commit/discard of a committed transaction change nothing
      (if (pairs.zip ops).all (fun ((a, b), o) =>
          (o.1 != "discard" || headsOf a == headsOf b) &&
          (!isCommitted a || (stripMoved a |>.setObjVal! "outcome" Json.null).compress == (stripMoved b |>.setObjVal! "outcome" Json.null).compress) &&
          (!isCommitted a || outcomeOf b == "refused")) then [] else ["discard-never-touches-branches-and-committed-is-final"]) ++
      -- a successful discard of an open transaction removes all staged refs
      (if (pairs.zip ops).all (fun ((a, b), o) => o.1 != "discard" || isCommitted a || outcomeOf b != "ok" ||
          (fldD b "staged" Json.null).compress == "[]") then [] else ["discard-removes-all-staged-refs"]) ++
      (if headsOf (istates.headD Json.null) == initHeadsJ.compress then [] else [])
    return reply mj agree viol
  | "tx-cli" =>
    -- `wrgl transaction commit` failing midway (one staged commit object unreadable), then again with
    -- the object restored: it completes to the all-branches outcome, each branch moved exactly once
    if resClass impl == "panic" then return reply Json.null false ["no-panic"]
    if resClass impl != "ok" then return reply Json.null false ["unexpected-error"]
    let nb ← natFld input "branches"
    let v := fldD impl "val" Json.null
    let n := fun (k : String) => (fldD v k (jNat 0)).getNat?.toOption.getD 0
    let b := fun (k : String) => (fldD v k (Json.bool false)).getBool?.toOption.getD false
    let viol :=
      (if b "firstFailed" then [] else ["harness-setup-failed"]) ++
      (if n "movedAfterFirst" ≤ nb then [] else ["no-duplicate-commits"]) ++
      (if b "secondOk" && n "movedAfterSecond" == nb then [] else ["rerun-completes-to-all-branches-outcome"]) ++
      (if n "logEntries" == nb || !b "secondOk" then [] else ["each-branch-logged-exactly-once"])
    return reply (Json.mkObj [("movedAfterSecond", jNat nb)]) viol.isEmpty viol
  | _ => throw s!"unknown op {op}"

end Wrgl.Drv
