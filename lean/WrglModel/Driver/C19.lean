import WrglModel.Driver.Util
import WrglModel.Model.Sorter
import WrglModel.Spec.Sorter
import WrglModel.Gen.Facts
open Lean
namespace Wrgl.Drv

def jOutBlock (b : OutBlock) : Json :=
  Json.mkObj [("offset", jNat b.offset), ("pk", jRow b.pk), ("rows", jRows b.rows)]

def hasDupKeys (pk : List Nat) (rows : List Row) : Bool :=
  (distinctKeys pk rows).length != rows.length

def handleC19 (op : String) (input impl : Json) : Except String Json := do
  match op with
  | "sort" =>
    let pk ← asNatList (← fld input "pk")
    let removed ← asNatList (fldD input "removed" (Json.arr #[]))
    let runSize ← natFld input "runSize"
    let rows ← asRows (fldD input "rows" (Json.arr #[]))
    let bs := Facts.blockSize
    let m : Res Json :=
      match addRows (refSort pk) Facts.addRowMaxCell runSize { chunks := [], current := [], size := 0 } rows with
      | .ok st =>
        let blks := sortedBlocks (refSort pk) bs pk removed st
        let rbs := sortedRows (refSort pk) bs pk removed st
        .ok (Json.mkObj [("blocks", Json.arr (blks.map jOutBlock).toArray),
                         ("rowBlocks", Json.arr (rbs.map jRows).toArray),
                         ("rowOffsets", jNats (List.range rbs.length)),
                         ("spilled", jNat st.chunks.length), ("leftover", jNat 0)])
      | .err e => .err e
      | .panic p => .panic p
    let mj := jRes id m
    let dup := hasDupKeys pk rows
    let viol ←
      if resClass impl == "ok" then do
        let v := fldD impl "val" Json.null
        let blocks ← (← arrFld v "blocks").mapM fun b => do
          return (← natFld b "offset", ← asRow (← fld b "pk"), ← asRows (← fld b "rows"))
        let rowBlocks ← (← arrFld v "rowBlocks").mapM asRows
        let leftover ← intFld v "leftover"
        let brs := blocks.map (·.2.2)
        pure ((sortVerdict bs pk removed rows brs).map (fun s => "blocks:" ++ s) ++
         (sortVerdict bs pk removed rows rowBlocks).map (fun s => "rows:" ++ s) ++
         (if blockKeysOk bs (distinctKeys pk rows) (blocks.map (·.2.1)) then [] else ["block-key-is-first-row-key"]) ++
         (if blocks.map (·.1) == List.range blocks.length then [] else ["block-offsets"]) ++
         (if brs.flatten == rowBlocks.flatten then [] else ["outputs-agree"]) ++
         (if leftover == 0 then [] else ["spill-files-removed"]))
      else if resClass impl == "panic" then pure ["no-panic"]
      else if resClass mj == "err" then pure []
      else pure ["unexpected-error"]
    -- with duplicate keys the Go sort is unstable: the representative row of a key is not determined,
    -- so model and implementation are compared on the property clauses only
    let agree := if dup && resClass impl == "ok" && resClass mj == "ok" then true else
      (if resClass impl == "ok" && resClass mj == "ok" then
        let v := fldD impl "val" Json.null
        let mv := fldD mj "val" Json.null
        (fldD v "blocks" Json.null).compress == (fldD mv "blocks" Json.null).compress &&
        (fldD v "rowBlocks" Json.null).compress == (fldD mv "rowBlocks" Json.null).compress &&
        (fldD v "spilled" Json.null).compress == (fldD mv "spilled" Json.null).compress
      else resClass impl == resClass mj)
    return reply mj agree viol
  | "ingest-error" =>
    -- a failing ingest (malformed last record, after runs were spilled) still removes its spill files
    if resClass impl == "panic" then return reply Json.null false ["no-panic"]
    if resClass impl != "ok" then return reply Json.null false ["unexpected-error"]
    let v := fldD impl "val" Json.null
    let errored := (fldD v "errored" (Json.bool false)).getBool?.toOption.getD false
    let leftover := (fldD v "leftover" (jNat 0)).compress
    let viol := (if errored then [] else ["malformed-record-is-an-error"]) ++ (if leftover == "0" then [] else ["spill-files-removed"])
    return reply (Json.mkObj [("errored", Json.bool true), ("leftover", jNat 0)]) viol.isEmpty viol
  | _ => throw s!"unknown op {op}"

end Wrgl.Drv
