import WrglModel.Driver.Util
import WrglModel.Model.Sorter
import WrglModel.Model.SorterReuse
import WrglModel.Model.SorterFault
import WrglModel.Spec.Sorter
import WrglModel.Gen.Facts
open Lean
namespace Wrgl.Drv

def jOutBlock (b : OutBlock) : Json :=
  Json.mkObj [("offset", jNat b.offset), ("pk", jRow b.pk), ("rows", jRows b.rows)]

def hasDupKeys (pk : List Nat) (rows : List Row) : Bool :=
  (distinctKeys pk rows).length != rows.length

/-- all sublists (order kept) -/
def sublistsOf {α : Type} : List α → List (List α)
  | [] => [[]]
  | a :: l => let r := sublistsOf l; r.map (a :: ·) ++ r

/-- the inputs the output of a sorter may stand for when some `AddRow` calls returned the error of a
    failed spill: every row whose `AddRow` returned nil, and any of the rows whose call returned the
    error (the caller was told about those; the property does not say whether they count as added).
    The first candidate is "all rows". With more than 4 failed calls only "all" and "none". -/
def faultCandidates (rows : List Row) (failed : List Nat) : List (List Row) :=
  let subs := if failed.length ≤ 4 then sublistsOf failed else [failed, []]
  subs.map (fun keep => (rows.zipIdx).filterMap (fun (r, i) =>
    if failed.contains i && !keep.contains i then none else some r))

def handleC19 (op : String) (input impl : Json) : Except String Json := do
  match op with
  | "sort" =>
    let pk ← asNatList (← fld input "pk")
    let removed ← asNatList (fldD input "removed" (Json.arr #[]))
    let runSize ← natFld input "runSize"
    let rows ← asRows (fldD input "rows" (Json.arr #[]))
    let bs := Facts.blockSize
    let m : Res Json :=
      match addRows (refSort pk) Facts.addRowMaxCell runSize { chunks := [], current := [], size := 0 } rows with
      | .ok st =>
        let blks := sortedBlocks (refSort pk) bs pk removed st
        let rbs := sortedRows (refSort pk) bs pk removed st
        .ok (Json.mkObj [("blocks", Json.arr (blks.map jOutBlock).toArray),
                         ("rowBlocks", Json.arr (rbs.map jRows).toArray),
                         ("rowOffsets", jNats (List.range rbs.length)),
                         ("spilled", jNat st.chunks.length), ("leftover", jNat 0)])
      | .err e => .err e
      | .panic p => .panic p
    let mj := jRes id m
    let dup := hasDupKeys pk rows
    let viol ←
      if resClass impl == "ok" then do
        let v := fldD impl "val" Json.null
        let blocks ← (← arrFld v "blocks").mapM fun b => do
          return (← natFld b "offset", ← asRow (← fld b "pk"), ← asRows (← fld b "rows"))
        let rowBlocks ← (← arrFld v "rowBlocks").mapM asRows
        let leftover ← intFld v "leftover"
        let brs := blocks.map (·.2.2)
        pure ((sortVerdict bs pk removed rows brs).map (fun s => "blocks:" ++ s) ++
         (sortVerdict bs pk removed rows rowBlocks).map (fun s => "rows:" ++ s) ++
         (if blockKeysOk bs (distinctKeys pk rows) (blocks.map (·.2.1)) then [] else ["block-key-is-first-row-key"]) ++
         (if blocks.map (·.1) == List.range blocks.length then [] else ["block-offsets"]) ++
         (if brs.flatten == rowBlocks.flatten then [] else ["outputs-agree"]) ++
         (if leftover == 0 then [] else ["spill-files-removed"]))
      else if resClass impl == "panic" then pure ["no-panic"]
      else if resClass mj == "err" then pure []
      else pure ["unexpected-error"]
    -- with duplicate keys the Go sort is unstable: the representative row of a key is not determined,
    -- so model and implementation are compared on the property clauses only
    let agree := if dup && resClass impl == "ok" && resClass mj == "ok" then true else
      (if resClass impl == "ok" && resClass mj == "ok" then
        let v := fldD impl "val" Json.null
        let mv := fldD mj "val" Json.null
        (fldD v "blocks" Json.null).compress == (fldD mv "blocks" Json.null).compress &&
        (fldD v "rowBlocks" Json.null).compress == (fldD mv "rowBlocks" Json.null).compress &&
        (fldD v "spilled" Json.null).compress == (fldD mv "spilled" Json.null).compress
      else resClass impl == resClass mj)
    return reply mj agree viol
  | "sort-fault" =>
    -- rows added while, for a stretch of them, no spill file can be created: the AddRow calls that
    -- attempt a spill there return an error and the caller carries on. Every row whose AddRow returned
    -- nil must come out (once per distinct key, in key order, in both outputs); the clauses are those
    -- of "sort", evaluated against the rows accepted (see faultCandidates)
    let pk ← asNatList (← fld input "pk")
    let removed ← asNatList (fldD input "removed" (Json.arr #[]))
    let runSize ← natFld input "runSize"
    let rows ← asRows (fldD input "rows" (Json.arr #[]))
    let badFrom ← natFld input "badFrom" <|> pure 0
    let badLen ← natFld input "badLen"
    let bs := Facts.blockSize
    let bad := fun (i : Nat) => decide (badFrom ≤ i ∧ i < badFrom + badLen)
    let m : Res Json :=
      match addRowsF (refSort pk) Facts.addRowMaxCell runSize bad 0 { chunks := [], current := [], size := 0 } rows with
      | .ok (st, failed) =>
        let blks := sortedBlocks (refSort pk) bs pk removed st
        let rbs := sortedRows (refSort pk) bs pk removed st
        .ok (Json.mkObj [("blocks", Json.arr (blks.map jOutBlock).toArray),
                         ("rowBlocks", Json.arr (rbs.map jRows).toArray),
                         ("rowOffsets", jNats (List.range rbs.length)),
                         ("spilled", jNat st.chunks.length), ("leftover", jNat 0),
                         ("failed", jNats failed), ("failedRows", jNats failed)])
      | .err e => .err e
      | .panic p => .panic p
    let mj := jRes id m
    let dup := hasDupKeys pk rows
    if resClass impl == "panic" then return reply mj false ["no-panic"]
    if resClass impl != "ok" then
      return reply mj (resClass impl == resClass mj) (if resClass mj == "err" then [] else ["unexpected-error"])
    let v := fldD impl "val" Json.null
    let blocks ← (← arrFld v "blocks").mapM fun b => do
      return (← natFld b "offset", ← asRow (← fld b "pk"), ← asRows (← fld b "rows"))
    let rowBlocks ← (← arrFld v "rowBlocks").mapM asRows
    let leftover ← intFld v "leftover"
    let failed1 ← asNatList (← fld v "failed")
    let failed2 ← asNatList (← fld v "failedRows")
    let failed := (failed1 ++ failed2).eraseDups
    let brs := blocks.map (·.2.2)
    let verdictFor := fun (acc : List Row) =>
      (sortVerdict bs pk removed acc brs).map (fun s => "after-failed-spill:blocks:" ++ s) ++
      (sortVerdict bs pk removed acc rowBlocks).map (fun s => "after-failed-spill:rows:" ++ s) ++
      (if blockKeysOk bs (distinctKeys pk acc) (blocks.map (·.2.1)) then [] else ["after-failed-spill:block-key-is-first-row-key"])
    let cands := faultCandidates rows failed
    let vs := cands.map verdictFor
    let contentViol := if vs.any (·.isEmpty) then [] else vs.headD []
    let viol := contentViol ++
      (if failed.all bad then [] else ["spill-error-only-when-the-spill-fails"]) ++
      (if blocks.map (·.1) == List.range blocks.length then [] else ["block-offsets"]) ++
      (if brs.flatten == rowBlocks.flatten then [] else ["outputs-agree"]) ++
      (if leftover == 0 then [] else ["spill-files-removed"])
    let agree :=
      if resClass mj != "ok" then false else
      let mv := fldD mj "val" Json.null
      (fldD v "failed" Json.null).compress == (fldD mv "failed" Json.null).compress &&
      (fldD v "failedRows" Json.null).compress == (fldD mv "failedRows" Json.null).compress &&
      (fldD v "spilled" Json.null).compress == (fldD mv "spilled" Json.null).compress &&
      (dup ||
        ((fldD v "blocks" Json.null).compress == (fldD mv "blocks" Json.null).compress &&
         (fldD v "rowBlocks" Json.null).compress == (fldD mv "rowBlocks" Json.null).compress))
    return reply mj agree viol
  | "sort-reuse" =>
    -- one sorter, several tables, `Reset` in between; an earlier use may have been abandoned with
    -- rows unread. Every use that is read to the end must emit exactly its own table's rows (the same
    -- clauses as for a new sorter), and after Close no spill file of any use is left
    let runSize ← natFld input "runSize"
    let usesJ ← arrFld input "uses"
    let bs := Facts.blockSize
    if resClass impl == "panic" then return reply Json.null false ["no-panic"]
    -- the model: the state left by a use is whatever it is; the next use starts with `reset`
    let stepM := fun (acc : Res (SorterSt × List Json)) (u : Json) =>
      match acc with
      | .ok (st, outs) =>
        match (do
          let pk ← asNatList (← fld u "pk")
          let removed ← asNatList (fldD u "removed" (Json.arr #[]))
          let rows ← asRows (fldD u "rows" (Json.arr #[]))
          let use ← strFld u "use"
          pure (pk, removed, rows, use) : Except String _) with
        | .error e => (.err e : Res (SorterSt × List Json))
        | .ok (pk, removed, rows, use) =>
          match reuse (refSort pk) Facts.addRowMaxCell runSize st rows with
          | .ok st' =>
            let o := Json.mkObj ([("use", Json.str use), ("spilled", jNat st'.chunks.length)] ++
              (if use == "blocks" then [("blocks", Json.arr ((sortedBlocks (refSort pk) bs pk removed st').map jOutBlock).toArray)] else []) ++
              (if use == "rows" then
                let rbs := sortedRows (refSort pk) bs pk removed st'
                [("rowBlocks", Json.arr (rbs.map jRows).toArray), ("rowOffsets", jNats (List.range rbs.length))] else []))
            -- what is left unread: nothing after a full read, everything when abandoned, all but the
            -- first block's rows (and the read-ahead) after a cancelled read; `reset` ignores it anyway
            let left := if use == "blocks" || use == "rows" then consume (refSort pk) pk (totalLen (st'.chunks ++ [st'.current])) st'
                        else if use == "abandon" then st' else consume (refSort pk) pk bs st'
            .ok (left, outs ++ [o])
          | .err e => .err e
          | .panic p => .panic p
      | r => r
    let m := usesJ.foldl stepM (.ok (SorterSt.empty, []))
    let mj := jRes (fun (p : SorterSt × List Json) => Json.mkObj [("uses", Json.arr p.2.toArray), ("leftoverLast", jNat 0), ("leftoverEarlier", jNat 0)]) m
    if resClass impl != "ok" then
      return reply mj (resClass impl == resClass mj) (if resClass mj == "err" then [] else ["unexpected-error"])
    if resClass mj != "ok" then return reply mj false []
    let v := fldD impl "val" Json.null
    let usesI ← arrFld v "uses"
    let usesM ← arrFld (fldD mj "val" Json.null) "uses"
    if usesI.length != usesJ.length then return reply mj false ["unexpected-error"]
    let mut viol : List String := []
    let mut agree := true
    for (u, (o, mo)) in usesJ.zip (usesI.zip usesM) do
      let pk ← asNatList (← fld u "pk")
      let removed ← asNatList (fldD u "removed" (Json.arr #[]))
      let rows ← asRows (fldD u "rows" (Json.arr #[]))
      let use ← strFld u "use"
      let dup := hasDupKeys pk rows
      if (fldD o "spilled" Json.null).compress != (fldD mo "spilled" Json.null).compress then agree := false
      if use == "blocks" then
        let blocks ← (← arrFld o "blocks").mapM fun b => do
          return (← natFld b "offset", ← asRow (← fld b "pk"), ← asRows (← fld b "rows"))
        viol := viol ++ (sortVerdict bs pk removed rows (blocks.map (·.2.2))).map (fun s => "reused:blocks:" ++ s) ++
          (if blockKeysOk bs (distinctKeys pk rows) (blocks.map (·.2.1)) then [] else ["reused:block-key-is-first-row-key"]) ++
          (if blocks.map (·.1) == List.range blocks.length then [] else ["reused:block-offsets"])
        if !dup && (fldD o "blocks" Json.null).compress != (fldD mo "blocks" Json.null).compress then agree := false
      else if use == "rows" then
        let rowBlocks ← (← arrFld o "rowBlocks").mapM asRows
        let offs ← asNatList (fldD o "rowOffsets" (Json.arr #[]))
        viol := viol ++ (sortVerdict bs pk removed rows rowBlocks).map (fun s => "reused:rows:" ++ s) ++
          (if offs == List.range rowBlocks.length then [] else ["reused:block-offsets"])
        if !dup && (fldD o "rowBlocks" Json.null).compress != (fldD mo "rowBlocks" Json.null).compress then agree := false
      else pure ()
    let leftLast ← intFld v "leftoverLast"
    let leftEarlier ← intFld v "leftoverEarlier"
    viol := viol ++ (if leftLast == 0 then [] else ["spill-files-removed"]) ++
      (if leftEarlier == 0 then [] else ["spill-files-of-uses-before-a-reset-removed"])
    return reply mj agree viol.eraseDups
  | "ingest-error" =>
    -- a failing ingest (malformed last record, after runs were spilled) still removes its spill files
    if resClass impl == "panic" then return reply Json.null false ["no-panic"]
    if resClass impl != "ok" then return reply Json.null false ["unexpected-error"]
    let v := fldD impl "val" Json.null
    let errored := (fldD v "errored" (Json.bool false)).getBool?.toOption.getD false
    let leftover := (fldD v "leftover" (jNat 0)).compress
    let viol := (if errored then [] else ["malformed-record-is-an-error"]) ++ (if leftover == "0" then [] else ["spill-files-removed"])
    return reply (Json.mkObj [("errored", Json.bool true), ("leftover", jNat 0)]) viol.isEmpty viol
  | _ => throw s!"unknown op {op}"

end Wrgl.Drv
