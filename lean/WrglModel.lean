import WrglModel.Model.Basic
import WrglModel.Model.Queue
import WrglModel.Spec.Graph
